// Command automut enumerates small syntactic mutants of hand-written Go files.
// It prints one JSON object per mutant: the byte range to replace and the replacement.
// It is the front half of mutants/auto/campaign.py, which measures how many changes that
// compile and pass the repository's own tests the monitors detect.
//
//	automut <repo-root> <relative-file>...
package main

import (
	"encoding/json"
	"fmt"
	"go/ast"
	"go/parser"
	"go/token"
	"os"
	"path/filepath"
	"strconv"
)

type Mut struct {
	File  string `json:"file"`
	Start int    `json:"start"`
	End   int    `json:"end"`
	Repl  string `json:"repl"`
	Op    string `json:"op"`
	Line  int    `json:"line"`
	Orig  string `json:"orig"`
	Func  string `json:"func"`
}

var swaps = map[token.Token][]string{
	token.EQL:  {"!="},
	token.NEQ:  {"=="},
	token.LSS:  {"<=", ">"},
	token.LEQ:  {"<", ">"},
	token.GTR:  {">=", "<"},
	token.GEQ:  {">", "<"},
	token.LAND: {"||"},
	token.LOR:  {"&&"},
	token.ADD:  {"-"},
	token.SUB:  {"+"},
	token.MUL:  {"/"},
	token.QUO:  {"*"},
	token.REM:  {"/"},
}

func main() {
	if len(os.Args) < 3 {
		fmt.Fprintln(os.Stderr, "usage: automut <repo-root> <relative-file>...")
		os.Exit(64)
	}
	root := os.Args[1]
	enc := json.NewEncoder(os.Stdout)
	for _, rel := range os.Args[2:] {
		src, err := os.ReadFile(filepath.Join(root, rel))
		if err != nil {
			fmt.Fprintln(os.Stderr, err)
			os.Exit(1)
		}
		fset := token.NewFileSet()
		f, err := parser.ParseFile(fset, rel, src, 0)
		if err != nil {
			fmt.Fprintln(os.Stderr, err)
			os.Exit(1)
		}
		off := func(p token.Pos) int { return fset.Position(p).Offset }
		emit := func(fn string, start, end token.Pos, repl, op string) {
			s, e := off(start), off(end)
			enc.Encode(Mut{File: rel, Start: s, End: e, Repl: repl, Op: op, Line: fset.Position(start).Line, Orig: string(src[s:e]), Func: fn})
		}
		fn := "(package level)"
		funcOf := func(p token.Pos) string {
			for _, d := range f.Decls {
				if fd, ok := d.(*ast.FuncDecl); ok && fd.Pos() <= p && p < fd.End() {
					return fd.Name.Name
				}
			}
			return "(package level)"
		}
		{
			endsInJump := func(b *ast.BlockStmt) bool {
				if len(b.List) == 0 {
					return false
				}
				switch b.List[len(b.List)-1].(type) {
				case *ast.ReturnStmt, *ast.BranchStmt:
					return true
				}
				return false
			}
			deletable := func(list []ast.Stmt) {
				for _, s := range list {
					switch x := s.(type) {
					case *ast.ExprStmt, *ast.IncDecStmt, *ast.DeferStmt:
						emit(fn, s.Pos(), s.End(), "", "delete-stmt")
					case *ast.AssignStmt:
						if x.Tok != token.DEFINE {
							emit(fn, s.Pos(), s.End(), "", "delete-stmt")
						}
					}
				}
			}
			ast.Inspect(f, func(n ast.Node) bool {
				if n != nil {
					fn = funcOf(n.Pos())
				}
				switch x := n.(type) {
				case *ast.BinaryExpr:
					for _, r := range swaps[x.Op] {
						emit(fn, x.OpPos, x.OpPos+token.Pos(len(x.Op.String())), r, "binop "+x.Op.String()+"→"+r)
					}
				case *ast.IfStmt:
					c := string(src[off(x.Cond.Pos()):off(x.Cond.End())])
					emit(fn, x.Cond.Pos(), x.Cond.End(), "!("+c+")", "negate-if")
					if endsInJump(x.Body) && x.Else == nil {
						emit(fn, x.Cond.Pos(), x.Cond.End(), "false && ("+c+")", "drop-guard")
					}
				case *ast.BasicLit:
					if x.Kind == token.INT {
						if v, err := strconv.ParseInt(x.Value, 0, 64); err == nil {
							emit(fn, x.Pos(), x.End(), strconv.FormatInt(v+1, 10), "int+1")
							if v > 0 {
								emit(fn, x.Pos(), x.End(), strconv.FormatInt(v-1, 10), "int-1")
							}
						}
					}
				case *ast.Ident:
					if x.Name == "true" {
						emit(fn, x.Pos(), x.End(), "false", "true→false")
					} else if x.Name == "false" {
						emit(fn, x.Pos(), x.End(), "true", "false→true")
					}
				case *ast.UnaryExpr:
					if x.Op == token.NOT || x.Op == token.SUB {
						emit(fn, x.OpPos, x.OpPos+1, "", "drop-unary "+x.Op.String())
					}
				case *ast.BranchStmt:
					if x.Label == nil {
						if x.Tok == token.BREAK {
							emit(fn, x.Pos(), x.End(), "continue", "break→continue")
						} else if x.Tok == token.CONTINUE {
							emit(fn, x.Pos(), x.End(), "break", "continue→break")
						}
					}
				case *ast.BlockStmt:
					deletable(x.List)
				case *ast.CaseClause:
					deletable(x.Body)
				case *ast.CommClause:
					deletable(x.Body)
				}
				return true
			})
		}
	}
}
