// Command vcheck is the runner of the ysgo runtime monitors.
//
//	vcheck run <Cxx> <quick|thorough>     parent: splits the case list over child processes, merges, writes evidence
//	vcheck child <Cxx> <tier> <seed> <from> <to> <resultfile> <progressfile>
//	vcheck case <Cxx> <tier> <seed> <idx>  run one case verbosely
//	vcheck replay <file>                   re-run the case recorded in a replay file
//	vcheck aux <name> args...              helper sub-commands used by some properties (fresh-process executions)
package main

import (
	"bytes"
	"context"
	"encoding/json"
	"fmt"
	"os"
	"os/exec"
	"path/filepath"
	"runtime"
	"runtime/debug"
	"sort"
	"strconv"
	"strings"
	"sync"
	"syscall"
	"time"

	"github.com/remieven/ysgo/verifharness/core"
	"github.com/remieven/ysgo/verifharness/props"
)

func main() {
	if len(os.Args) < 2 {
		usage()
	}
	switch os.Args[1] {
	case "run":
		if len(os.Args) != 4 {
			usage()
		}
		os.Exit(parent(os.Args[2], os.Args[3]))
	case "child":
		if len(os.Args) != 9 {
			usage()
		}
		os.Exit(child(os.Args[2:]))
	case "case":
		if len(os.Args) != 6 {
			usage()
		}
		seed, _ := strconv.ParseInt(os.Args[4], 10, 64)
		idx, _ := strconv.Atoi(os.Args[5])
		os.Exit(oneCase(os.Args[2], os.Args[3], seed, idx))
	case "replay":
		if len(os.Args) != 3 {
			usage()
		}
		os.Exit(replay(os.Args[2]))
	case "aux":
		os.Exit(props.Aux(os.Args[2:]))
	case "list":
		for _, id := range core.AllIDs() {
			p, _ := core.Lookup(id)
			fmt.Printf("%s quick=%d thorough=%d\n", id, p.Cases("quick"), p.Cases("thorough"))
		}
	default:
		usage()
	}
}

func usage() {
	fmt.Fprintln(os.Stderr, "usage: vcheck run <Cxx> <quick|thorough> | child … | case <Cxx> <tier> <seed> <idx> | replay <file>")
	os.Exit(64)
}

func verifDir() string {
	if d := os.Getenv("VERIF_DIR"); d != "" {
		return d
	}
	return "/verif"
}

func seedFromEnv() int64 {
	if s := os.Getenv("VERIF_SEED"); s != "" {
		if v, err := strconv.ParseInt(s, 10, 64); err == nil {
			return v
		}
	}
	return 1
}

func jobs() int {
	if s := os.Getenv("VERIF_JOBS"); s != "" {
		if v, err := strconv.Atoi(s); err == nil && v > 0 {
			return v
		}
	}
	return runtime.NumCPU()
}

// ---------------------------------------------------------------- child

func runCase(p core.Prop, c *core.Ctx) {
	defer func() {
		if r := recover(); r != nil {
			// A panic that reaches this point escaped the driver's own guards. If it was raised inside ysgo
			// (or antlr) - a call the driver did not expect to panic, such as Snapshot or a registration -
			// the library panicked on a valid use: a violation whatever the property. Otherwise it is a
			// harness problem.
			stack := string(debug.Stack())
			if raisedInTarget(stack) {
				c.Violate("a call into the library panicked (outside the guards of the driver, which expected it to return)", map[string]any{"panic": fmt.Sprint(r), "stack": tail(stack, 5000)})
				return
			}
			c.Inconclusive(fmt.Sprintf("harness panic in case %d: %v\n%s", c.Idx, r, stack))
		}
	}()
	p.Run(c)
}

func child(a []string) int {
	p, ok := core.Lookup(a[0])
	if !ok {
		fmt.Fprintln(os.Stderr, "unknown property", a[0])
		return 64
	}
	tier := a[1]
	seed, _ := strconv.ParseInt(a[2], 10, 64)
	from, _ := strconv.Atoi(a[3])
	to, _ := strconv.Atoi(a[4])
	resFile, progFile := a[5], a[6]
	res := core.NewResult()
	for i := from; i < to; i++ {
		// the progress marker is on disk before the case runs
		_ = os.WriteFile(progFile, []byte(strconv.Itoa(i)), 0o644)
		c := &core.Ctx{Prop: p.ID(), Tier: tier, Seed: seed, Idx: i, R: core.NewRand(core.SubSeed(seed, p.ID(), i)), Res: res}
		res.Evaluations++
		var watchdog *time.Timer
		if ct, ok := p.(interface {
			CaseTimeout(tier string) time.Duration
		}); ok {
			// a case that is silent for this long hangs: dump the goroutines and leave; the parent re-runs the
			// case alone under the same limit before it counts (exit code 97 = "timed out")
			watchdog = time.AfterFunc(ct.CaseTimeout(tier), func() {
				buf := make([]byte, 1<<20)
				os.Stderr.Write(buf[:runtime.Stack(buf, true)])
				os.Exit(97)
			})
		}
		runCase(p, c)
		if watchdog != nil {
			watchdog.Stop()
		}
		// the check has failed already: a few witnesses are enough, the rest of the chunk is not run
		unknown := 0
		for _, v := range res.Violations {
			if v.Known == "" {
				unknown++
			}
		}
		if unknown >= 3 {
			res.Events["chunks-stopped-after-3-violations"]++
			break
		}
	}
	if f, ok := p.(core.Flusher); ok && to > from {
		c := &core.Ctx{Prop: p.ID(), Tier: tier, Seed: seed, Idx: to - 1, R: core.NewRand(core.SubSeed(seed, p.ID()+"/flush", from)), Res: res}
		func() {
			defer func() {
				if r := recover(); r != nil {
					c.Inconclusive(fmt.Sprintf("harness panic in flush: %v\n%s", r, debug.Stack()))
				}
			}()
			f.Flush(c)
		}()
	}
	b, err := core.MarshalResult(res)
	if err != nil {
		fmt.Fprintln(os.Stderr, "marshal:", err)
		return 70
	}
	if err := os.WriteFile(resFile+".tmp", b, 0o644); err != nil {
		fmt.Fprintln(os.Stderr, err)
		return 70
	}
	if err := os.Rename(resFile+".tmp", resFile); err != nil {
		fmt.Fprintln(os.Stderr, err)
		return 70
	}
	return 0
}

func oneCase(id, tier string, seed int64, idx int) int {
	p, ok := core.Lookup(id)
	if !ok {
		fmt.Fprintln(os.Stderr, "unknown property", id)
		return 64
	}
	res := core.NewResult()
	c := &core.Ctx{Prop: id, Tier: tier, Seed: seed, Idx: idx, R: core.NewRand(core.SubSeed(seed, id, idx)), Res: res, Verbose: true}
	res.Evaluations++
	runCase(p, c)
	if f, ok := p.(core.Flusher); ok {
		f.Flush(c)
	}
	for _, s := range res.Inconclusive {
		fmt.Println("INCONCLUSIVE:", s)
	}
	if len(res.Violations) > 0 {
		fmt.Printf("case %d of %s/%s seed %d: %d violation(s)\n", idx, id, tier, seed, len(res.Violations))
		return 1
	}
	fmt.Printf("case %d of %s/%s seed %d: no violation (events %v)\n", idx, id, tier, seed, res.Events)
	return 0
}

func replay(file string) int {
	b, err := os.ReadFile(file)
	if err != nil {
		fmt.Fprintln(os.Stderr, err)
		return 64
	}
	var v core.Violation
	if err := json.Unmarshal(b, &v); err != nil {
		fmt.Fprintln(os.Stderr, "bad replay file:", err)
		return 64
	}
	fmt.Printf("replaying %s case %d (tier %s, seed %d): %s\n", v.Property, v.Case, v.Tier, v.Seed, v.What)
	if v.Case < 0 {
		fmt.Println("this replay describes a parent-level observation; re-run the check itself")
		return 1
	}
	// Run in a sub-process so that a fatal error is contained and reported.
	self, _ := os.Executable()
	cmd := exec.Command(self, "case", v.Property, v.Tier, strconv.FormatInt(v.Seed, 10), strconv.Itoa(v.Case))
	cmd.Stdout, cmd.Stderr = os.Stdout, os.Stderr
	if err := cmd.Run(); err != nil {
		fmt.Printf("VIOLATION property=%s replay=%s\n", v.Property, file)
		return 1
	}
	return 0
}

// ---------------------------------------------------------------- parent

type chunk struct{ from, to int }

type childOutcome struct {
	res      *core.Result
	crashed  bool
	timedOut bool
	at       int    // progress marker
	log      string // tail of stderr
}

func runChild(bin string, p core.Prop, tier string, seed int64, ch chunk, work string, timeout time.Duration, extraEnv []string) childOutcome {
	tag := fmt.Sprintf("%s-%d-%d", p.ID(), ch.from, ch.to)
	resFile := filepath.Join(work, tag+".res")
	progFile := filepath.Join(work, tag+".prog")
	logFile := filepath.Join(work, tag+".log")
	os.Remove(resFile)
	lf, _ := os.Create(logFile)
	defer lf.Close()
	ctx, cancel := context.WithCancel(context.Background())
	defer cancel()
	cmd := exec.CommandContext(ctx, bin, "child", p.ID(), tier, strconv.FormatInt(seed, 10), strconv.Itoa(ch.from), strconv.Itoa(ch.to), resFile, progFile)
	cmd.Stdout, cmd.Stderr = lf, lf
	cmd.Env = append(os.Environ(), "GOMAXPROCS=2", "GOTRACEBACK=all")
	cmd.Env = append(cmd.Env, extraEnv...)
	out := childOutcome{at: -1}
	if err := cmd.Start(); err != nil {
		out.crashed = true
		out.log = err.Error()
		return out
	}
	done := make(chan error, 1)
	go func() { done <- cmd.Wait() }()
	var err error
	select {
	case err = <-done:
	case <-time.After(timeout):
		out.timedOut = true
		_ = cmd.Process.Signal(syscall.SIGQUIT) // goroutine dump into the log file
		select {
		case err = <-done:
		case <-time.After(10 * time.Second):
			_ = cmd.Process.Kill()
			err = <-done
		}
	}
	if ee, ok := err.(*exec.ExitError); ok && ee.ExitCode() == 97 {
		out.timedOut = true // the child's own per-case watchdog
	}
	if b, e := os.ReadFile(progFile); e == nil {
		out.at, _ = strconv.Atoi(strings.TrimSpace(string(b)))
	}
	if b, e := os.ReadFile(resFile); e == nil && err == nil {
		r, e2 := core.UnmarshalResult(b)
		if e2 == nil {
			out.res = r
			return out
		}
		out.log = "bad result file: " + e2.Error()
	}
	out.crashed = true
	if b, e := os.ReadFile(logFile); e == nil {
		if len(b) > 16000 {
			b = append(b[:8000:8000], append([]byte("\n…\n"), b[len(b)-8000:]...)...)
		}
		out.log += string(b)
	}
	return out
}

// raisedInTarget is true when the frame that raised the panic (the first frame after the runtime's own)
// belongs to ysgo proper or to antlr.
func raisedInTarget(stack string) bool {
	lines := strings.Split(stack, "\n")
	seenPanic := false
	for _, l := range lines {
		t := strings.TrimSpace(l)
		if strings.HasPrefix(t, "panic(") {
			seenPanic = true
			continue
		}
		if !seenPanic || strings.HasPrefix(t, "/") || t == "" || strings.HasPrefix(t, "runtime.") || strings.HasPrefix(t, "goroutine ") {
			continue
		}
		// the first function line after panic( that is not the runtime's
		return strings.Contains(t, "antlr4-go/antlr") || strings.Contains(t, "github.com/remieven/ysgo") && !strings.Contains(t, "verifharness")
	}
	return false
}

func mentionsTarget(log string) bool {
	return containsNonHarnessFrame(log) || strings.Contains(log, "antlr4-go/antlr")
}

// containsNonHarnessFrame is true when a stack shows a frame of ysgo proper (not
// only of the harness, whose import path shares the prefix).
func containsNonHarnessFrame(log string) bool {
	for _, line := range strings.Split(log, "\n") {
		if strings.Contains(line, "github.com/remieven/ysgo") && !strings.Contains(line, "verifharness") {
			return true
		}
		if strings.HasPrefix(strings.TrimSpace(line), "/repo/") {
			return true
		}
	}
	return false
}

func parent(id, tier string) int {
	start := time.Now()
	if tier != "quick" && tier != "thorough" {
		fmt.Fprintln(os.Stderr, "tier must be quick or thorough")
		return 64
	}
	p, ok := core.Lookup(id)
	if !ok {
		fmt.Fprintln(os.Stderr, "unknown property", id)
		return 64
	}
	seed := seedFromEnv()
	vd := verifDir()
	self, _ := os.Executable()
	bin := self
	binRace := filepath.Join(filepath.Dir(self), "vcheck-race")
	if r, ok := p.(core.Racy); ok && r.Race() {
		bin = binRace
	}
	work, err := os.MkdirTemp("", "vcheck-"+id+"-")
	if err != nil {
		fmt.Fprintln(os.Stderr, err)
		return 70
	}
	defer os.RemoveAll(work)

	n := p.Cases(tier)
	nj := jobs()
	size := (n + nj*4 - 1) / (nj * 4)
	if c, ok := p.(core.Chunked); ok {
		size = c.Chunk(tier)
	}
	if size < 1 {
		size = 1
	}
	var chunks []chunk
	for f := 0; f < n; f += size {
		t := f + size
		if t > n {
			t = n
		}
		chunks = append(chunks, chunk{f, t})
	}
	timeout := 15 * time.Minute // a quick chunk takes seconds to a few minutes, even on a loaded machine
	if tier == "thorough" {
		timeout = 3 * time.Hour
	}
	if ct, ok := p.(interface {
		ChildTimeout(tier string) time.Duration
	}); ok {
		timeout = ct.ChildTimeout(tier)
	}
	if s := os.Getenv("VERIF_CHILD_TIMEOUT_S"); s != "" {
		if v, err := strconv.Atoi(s); err == nil {
			timeout = time.Duration(v) * time.Second
		}
	}
	var extraEnv []string
	if e, ok := p.(core.ChildEnv); ok {
		extraEnv = e.Env(tier, work)
	}

	merged := core.NewResult()
	var mu sync.Mutex
	children := 0
	confirmedHangs := 0
	queue := make(chan chunk, len(chunks)+1024)
	var pending sync.WaitGroup
	for _, c := range chunks {
		pending.Add(1)
		queue <- c
	}
	go func() { pending.Wait(); close(queue) }()
	var wg sync.WaitGroup
	for w := 0; w < nj; w++ {
		wg.Add(1)
		go func() {
			defer wg.Done()
			for ch := range queue {
				mu.Lock()
				skip := confirmedHangs >= 2
				if skip {
					merged.Events["chunks-not-run-after-two-confirmed-hangs"]++
				}
				mu.Unlock()
				if skip {
					// two cases were confirmed (each re-run alone) not to terminate: the verdict is a violation
					// already, and every further hang would cost two watchdog periods
					pending.Done()
					continue
				}
				out := runChild(bin, p, tier, seed, ch, work, timeout, extraEnv)
				mu.Lock()
				children++
				mu.Unlock()
				if out.res != nil {
					mu.Lock()
					merged.Merge(out.res)
					mu.Unlock()
					pending.Done()
					continue
				}
				// The child died or hung. Find the suspect case, confirm it alone, go on with the rest.
				suspect := out.at
				if suspect < ch.from || suspect >= ch.to {
					mu.Lock()
					merged.Inconclusive = append(merged.Inconclusive, fmt.Sprintf("child %v died without progress marker: %s", ch, tail(out.log, 600)))
					mu.Unlock()
					pending.Done()
					continue
				}
				if ch.to-ch.from > 1 {
					// cases before the suspect: results were lost with the child, run them again
					if suspect > ch.from {
						pending.Add(1)
						queue <- chunk{ch.from, suspect}
					}
					pending.Add(1)
					queue <- chunk{suspect, suspect + 1}
					if suspect+1 < ch.to {
						pending.Add(1)
						queue <- chunk{suspect + 1, ch.to}
					}
					pending.Done()
					continue
				}
				// single case, confirmed dead
				mu.Lock()
				merged.Evaluations++
				switch {
				case out.timedOut:
					if h, ok := p.(interface{ HangIsViolation() bool }); ok && h.HangIsViolation() {
						confirmedHangs++
						merged.Violations = append(merged.Violations, core.Violation{Property: id, Tier: tier, Seed: seed, Case: suspect,
							What: "call did not terminate within the watchdog limit (re-run alone)", Detail: map[string]any{"log": tail(out.log, 6000)}})
					} else {
						merged.Inconclusive = append(merged.Inconclusive, fmt.Sprintf("case %d timed out", suspect))
					}
				case mentionsTarget(out.log):
					merged.Violations = append(merged.Violations, core.Violation{Property: id, Tier: tier, Seed: seed, Case: suspect,
						What: "process-fatal failure with ysgo/antlr frames (panic in a goroutine, fatal error or stack overflow)", Detail: map[string]any{"log": tail(out.log, 6000)}})
				default:
					merged.Inconclusive = append(merged.Inconclusive, fmt.Sprintf("case %d: child died without ysgo frames: %s", suspect, tail(out.log, 800)))
				}
				mu.Unlock()
				pending.Done()
			}
		}()
	}
	wg.Wait()

	if ps, ok := p.(core.ParentStep); ok {
		ps.Parent(&core.ParentCtx{Tier: tier, Seed: seed, WorkDir: work, Bin: self, BinRace: binRace}, merged)
	}

	// Known findings.
	known := loadKnown(vd)
	knownSeen := map[string]int{}
	knownLines := []string{}
	if wk, ok := p.(core.WithKnown); ok {
		for _, f := range known.Findings {
			if f.Property != id || f.Status != "known" {
				continue
			}
			fails, err := wk.KnownRepro(f)
			if err != nil {
				merged.Inconclusive = append(merged.Inconclusive, "known-finding reproducer "+f.ID+": "+err.Error())
				continue
			}
			if fails {
				knownSeen[f.ID]++
				knownLines = append(knownLines, fmt.Sprintf("KNOWN-FINDING: property=%s %s: %s", id, f.ID, f.What))
			}
		}
	}
	var real []core.Violation
	for _, v := range merged.Violations {
		if v.Known != "" && isListed(known, id, v.Known) {
			if knownSeen[v.Known] == 0 {
				knownLines = append(knownLines, fmt.Sprintf("KNOWN-FINDING: property=%s %s: %s", id, v.Known, knownWhat(known, id, v.Known)))
			}
			knownSeen[v.Known]++
			continue
		}
		real = append(real, v)
	}
	sort.Slice(real, func(i, j int) bool { return real[i].Case < real[j].Case })

	// Thresholds.
	th := p.Thresholds(tier)
	met := true
	var unmet []string
	for _, k := range core.SortedKeys(th) {
		if merged.Features[k] < th[k] {
			met = false
			unmet = append(unmet, fmt.Sprintf("%s=%d<%d", k, merged.Features[k], th[k]))
		}
	}

	distinct := merged.DistinctNontrivial()
	// Replays.
	var replayPaths []string
	os.MkdirAll(filepath.Join(vd, "replays"), 0o755)
	// replay files of earlier runs of this check with this tier and seed are stale now
	if old, _ := filepath.Glob(filepath.Join(vd, "replays", fmt.Sprintf("%s-%s-s%d-*.json", id, tier, seed))); old != nil {
		for _, f := range old {
			os.Remove(f)
		}
	}
	for i, v := range real {
		if i >= 10 {
			break
		}
		path := filepath.Join(vd, "replays", fmt.Sprintf("%s-%s-s%d-%d.json", id, tier, seed, v.Case))
		b, _ := json.MarshalIndent(v, "", " ")
		_ = os.WriteFile(path, b, 0o644)
		replayPaths = append(replayPaths, path)
	}

	// Evidence.
	sets := map[string]int{}
	for k, s := range merged.Sets {
		sets[k] = len(s)
	}
	samples := merged.Samples
	if len(samples) == 0 {
		samples = []any{"(no sample recorded)"}
	}
	exh, _ := p.(interface {
		Exhaustive(tier string) (bool, string)
	})
	// "evaluations" counts the executions / inputs the oracle judged, not the case indexes: a case index
	// bundles many of them (paths, lines, expressions, strings ...). Drivers name the feature counters
	// that count them.
	evaluations := merged.Evaluations
	if ef, ok := p.(interface{ EvalFeatures() []string }); ok {
		var sum int64
		for _, k := range ef.EvalFeatures() {
			sum += merged.Features[k]
		}
		if sum > evaluations {
			evaluations = sum
		}
	}
	cov := map[string]any{
		"evaluations":               evaluations,
		"distinct_nontrivial":       distinct,
		"rule":                      p.Rule(),
		"samples":                   samples,
		"events":                    merged.Events,
		"features":                  merged.Features,
		"max":                       merged.Max,
		"distinct_sets":             sets,
		"thresholds":                th,
		"thresholds_met":            met,
		"children":                  children,
		"discarded_by_model_budget": merged.Discarded,
		"known_findings_seen":       knownSeen,
		"inconclusive_reasons":      merged.Inconclusive,
		"case_indexes":              n,
	}
	if exh != nil {
		if e, what := exh.Exhaustive(tier); e {
			cov["exhaustive"] = false     // the run as a whole is an exploration …
			cov["exhaustive_part"] = what // … of which this stated finite part was enumerated completely
		}
	}
	ev := map[string]any{
		"property_id": id, "tier": tier, "seed": seed, "level": "exploration",
		"coverage": cov, "assumptions": p.Assumptions(),
		"wall_s": time.Since(start).Seconds(), "violations": len(real),
	}
	os.MkdirAll(filepath.Join(vd, "evidence"), 0o755)
	eb, _ := json.MarshalIndent(ev, "", " ")
	if err := os.WriteFile(filepath.Join(vd, "evidence", id+".json"), eb, 0o644); err != nil {
		fmt.Fprintln(os.Stderr, "cannot write evidence:", err)
	}

	// Report.
	fmt.Printf("%s %s seed=%d: %d cases, %d judged executions, %d distinct non-trivial, %d children, %.1fs\n", id, tier, seed, merged.Evaluations, evaluations, distinct, children, time.Since(start).Seconds())
	fmt.Printf("  events: %s\n", fmtMap(merged.Events))
	fmt.Printf("  features: %s\n", fmtMap(merged.Features))
	if len(merged.Max) > 0 {
		fmt.Printf("  max: %s\n", fmtMap(merged.Max))
	}
	for _, l := range knownLines {
		fmt.Println(l)
	}
	if len(real) > 0 {
		for i, v := range real {
			if i < len(replayPaths) {
				fmt.Printf("VIOLATION property=%s replay=%s\n", id, replayPaths[i])
				fmt.Printf("  case %d: %s\n", v.Case, v.What)
			}
		}
		if len(real) > len(replayPaths) {
			fmt.Printf("  (+%d more violations without replay file)\n", len(real)-len(replayPaths))
		}
		return 1
	}
	if len(merged.Inconclusive) > 0 || !met {
		reason := strings.Join(unmet, ",")
		if len(merged.Inconclusive) > 0 {
			reason += " " + tail(strings.Join(merged.Inconclusive, " | "), 1500)
		}
		fmt.Printf("INCONCLUSIVE property=%s reason=%s\n", id, strings.TrimSpace(reason))
		return 2
	}
	fmt.Printf("HELD property=%s on everything observed\n", id)
	return 0
}

func fmtMap(m map[string]int64) string {
	var b bytes.Buffer
	n := 0
	for _, k := range core.SortedKeys(m) {
		if strings.HasPrefix(k, "layout:") || strings.HasPrefix(k, "cell:") || strings.HasPrefix(k, "row:") || strings.HasPrefix(k, "hostile:") || strings.HasPrefix(k, "kwname:") {
			continue // fine-grained matrices are in the evidence file only
		}
		if n >= 60 {
			fmt.Fprintf(&b, " (+%d more keys in the evidence file)", len(m)-n)
			break
		}
		if n > 0 {
			b.WriteString(" ")
		}
		fmt.Fprintf(&b, "%s=%d", k, m[k])
		n++
	}
	return b.String()
}

func tail(s string, n int) string {
	if len(s) <= n {
		return s
	}
	return "…" + s[len(s)-n:]
}

func loadKnown(vd string) core.KnownFile {
	var kf core.KnownFile
	b, err := os.ReadFile(filepath.Join(vd, "known_findings.json"))
	if err != nil {
		return kf
	}
	_ = json.Unmarshal(b, &kf)
	return kf
}

func isListed(kf core.KnownFile, prop, id string) bool {
	for _, f := range kf.Findings {
		if f.Property == prop && f.ID == id && f.Status == "known" {
			return true
		}
	}
	return false
}

func knownWhat(kf core.KnownFile, prop, id string) string {
	for _, f := range kf.Findings {
		if f.Property == prop && f.ID == id {
			return f.What
		}
	}
	return ""
}
