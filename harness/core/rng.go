// Package core holds the plumbing shared by every check: the PRNG, the per-case
// context through which drivers report what they observed, result merging,
// evidence files and known findings.
package core

import (
	"hash/fnv"
	"math"
)

// Rand is a splitmix64 generator. It is implemented here (and not taken from
// math/rand) so that case lists only depend on VERIF_SEED and never on the Go
// version.
type Rand struct{ s uint64 }

func NewRand(seed uint64) *Rand { return &Rand{s: seed} }

// SubSeed derives the seed of case idx of a property from the run seed.
func SubSeed(seed int64, prop string, idx int) uint64 {
	h := fnv.New64a()
	h.Write([]byte(prop))
	x := h.Sum64() ^ (uint64(seed) * 0x9E3779B97F4A7C15) ^ (uint64(idx)+1)*0xBF58476D1CE4E5B9
	r := Rand{s: x}
	r.U64()
	return r.U64()
}

func (r *Rand) U64() uint64 {
	r.s += 0x9E3779B97F4A7C15
	z := r.s
	z = (z ^ (z >> 30)) * 0xBF58476D1CE4E5B9
	z = (z ^ (z >> 27)) * 0x94D049BB133111EB
	return z ^ (z >> 31)
}

// Intn returns a value in [0,n). n must be > 0.
func (r *Rand) Intn(n int) int {
	if n <= 1 {
		return 0
	}
	return int(r.U64() % uint64(n))
}

// Range returns a value in [lo,hi].
func (r *Rand) Range(lo, hi int) int { return lo + r.Intn(hi-lo+1) }

// Chance is true with probability num/den.
func (r *Rand) Chance(num, den int) bool { return r.Intn(den) < num }

func (r *Rand) Bool() bool { return r.U64()&1 == 1 }

// Float returns a value in [0,1).
func (r *Rand) Float() float64 { return float64(r.U64()>>11) / (1 << 53) }

// Pick returns one of the strings.
func (r *Rand) Pick(xs ...string) string { return xs[r.Intn(len(xs))] }

// PickW picks an index according to integer weights.
func (r *Rand) PickW(weights ...int) int {
	t := 0
	for _, w := range weights {
		t += w
	}
	x := r.Intn(t)
	for i, w := range weights {
		if x < w {
			return i
		}
		x -= w
	}
	return len(weights) - 1
}

// Fork returns an independent generator.
func (r *Rand) Fork() *Rand { return &Rand{s: r.U64()} }

// FloatBits returns a float64 from a random bit pattern that is finite.
func (r *Rand) FloatBits() float64 {
	for {
		f := math.Float64frombits(r.U64())
		if !math.IsNaN(f) && !math.IsInf(f, 0) {
			return f
		}
	}
}
