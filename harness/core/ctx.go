package core

import (
	"crypto/sha256"
	"encoding/binary"
	"encoding/json"
	"fmt"
	"sort"
)

// Violation describes one refuting observation together with everything needed
// to look at it again.
type Violation struct {
	Property string         `json:"property"`
	Tier     string         `json:"tier"`
	Seed     int64          `json:"seed"`
	Case     int            `json:"case"`
	What     string         `json:"what"`
	Known    string         `json:"known_class,omitempty"` // id of the known-finding class the case belongs to AND fails as
	Detail   map[string]any `json:"detail,omitempty"`
}

// Result is what a child process (or several, merged) observed.
type Result struct {
	Evaluations   int64                      `json:"evaluations"`
	Nontrivial    []uint64                   `json:"-"`
	Events        map[string]int64           `json:"events"`
	Features      map[string]int64           `json:"features"`
	Max           map[string]int64           `json:"max"`
	Samples       []any                      `json:"samples"`
	Violations    []Violation                `json:"violations"`
	Discarded     int64                      `json:"discarded"`
	Inconclusive  []string                   `json:"inconclusive"`
	Sets          map[string]map[string]bool `json:"sets"` // named sets of distinct small strings (states, interleavings)
	NontrivialHex []string                   `json:"nontrivial_hex,omitempty"`
}

func NewResult() *Result {
	return &Result{Events: map[string]int64{}, Features: map[string]int64{}, Max: map[string]int64{}, Sets: map[string]map[string]bool{}}
}

// Merge adds o into r.
func (r *Result) Merge(o *Result) {
	r.Evaluations += o.Evaluations
	r.Nontrivial = append(r.Nontrivial, o.Nontrivial...)
	for k, v := range o.Events {
		r.Events[k] += v
	}
	for k, v := range o.Features {
		r.Features[k] += v
	}
	for k, v := range o.Max {
		if v > r.Max[k] {
			r.Max[k] = v
		}
	}
	for k, s := range o.Sets {
		if r.Sets[k] == nil {
			r.Sets[k] = map[string]bool{}
		}
		for e := range s {
			r.Sets[k][e] = true
		}
	}
	for _, s := range o.Samples {
		if len(r.Samples) < 6 {
			r.Samples = append(r.Samples, s)
		}
	}
	r.Violations = append(r.Violations, o.Violations...)
	r.Discarded += o.Discarded
	r.Inconclusive = append(r.Inconclusive, o.Inconclusive...)
}

// DistinctNontrivial counts distinct hashes.
func (r *Result) DistinctNontrivial() int {
	m := make(map[uint64]struct{}, len(r.Nontrivial))
	for _, h := range r.Nontrivial {
		m[h] = struct{}{}
	}
	return len(m)
}

// MarshalResult encodes a result, including the hash list.
func MarshalResult(r *Result) ([]byte, error) {
	r.NontrivialHex = nil
	buf := make([]byte, 8*len(r.Nontrivial))
	for i, h := range r.Nontrivial {
		binary.LittleEndian.PutUint64(buf[8*i:], h)
	}
	type wire struct {
		*Result
		Hashes []byte `json:"hashes"`
	}
	return json.Marshal(wire{r, buf})
}

func UnmarshalResult(b []byte) (*Result, error) {
	type wire struct {
		*Result
		Hashes []byte `json:"hashes"`
	}
	w := wire{Result: NewResult()}
	if err := json.Unmarshal(b, &w); err != nil {
		return nil, err
	}
	for i := 0; i+8 <= len(w.Hashes); i += 8 {
		w.Result.Nontrivial = append(w.Result.Nontrivial, binary.LittleEndian.Uint64(w.Hashes[i:]))
	}
	if w.Result.Events == nil {
		w.Result.Events = map[string]int64{}
	}
	if w.Result.Features == nil {
		w.Result.Features = map[string]int64{}
	}
	if w.Result.Max == nil {
		w.Result.Max = map[string]int64{}
	}
	if w.Result.Sets == nil {
		w.Result.Sets = map[string]map[string]bool{}
	}
	return w.Result, nil
}

// Ctx is handed to a driver for one case.
type Ctx struct {
	Prop string
	Tier string
	Seed int64
	Idx  int
	R    *Rand
	Res  *Result
	// Verbose is set by `replay`: drivers may print an event-by-event account.
	Verbose bool
	failed  bool
}

func (c *Ctx) Thorough() bool { return c.Tier == "thorough" }

// Event counts an observed event of some kind.
func (c *Ctx) Event(kind string, n int) { c.Res.Events[kind] += int64(n) }

// Feature counts a workload feature that was actually exercised.
func (c *Ctx) Feature(name string) { c.Res.Features[name]++ }
func (c *Ctx) FeatureN(name string, n int) {
	if n > 0 {
		c.Res.Features[name] += int64(n)
	}
}

// MaxOf records a high-water mark.
func (c *Ctx) MaxOf(name string, v int) {
	if int64(v) > c.Res.Max[name] {
		c.Res.Max[name] = int64(v)
	}
}

// SetAdd records a distinct small string in a named set (bounded).
func (c *Ctx) SetAdd(set, elem string) {
	s := c.Res.Sets[set]
	if s == nil {
		s = map[string]bool{}
		c.Res.Sets[set] = s
	}
	if len(s) < 20000 {
		s[elem] = true
	}
}

// Nontrivial records the canonical description of a non-trivial case.
func (c *Ctx) Nontrivial(canon ...string) {
	h := sha256.New()
	for _, s := range canon {
		h.Write([]byte(s))
		h.Write([]byte{0})
	}
	sum := h.Sum(nil)
	c.Res.Nontrivial = append(c.Res.Nontrivial, binary.LittleEndian.Uint64(sum[:8]))
}

// Sample stores one of the cases of this run in the evidence (first few only).
func (c *Ctx) Sample(v any) {
	if len(c.Res.Samples) < 3 {
		c.Res.Samples = append(c.Res.Samples, v)
	}
}

func (c *Ctx) WantSample() bool { return len(c.Res.Samples) < 3 }

// Discard counts a generated case that was thrown away (model budget …).
func (c *Ctx) Discard() { c.Res.Discarded++ }

// Violate reports a refuting observation.
func (c *Ctx) Violate(what string, detail map[string]any) {
	c.violate("", what, detail)
}

// ViolateKnown reports a refuting observation on a case that belongs to the
// known-finding class id and fails in the way that finding describes. Whether it
// is suppressed is decided by the parent from known_findings.json.
func (c *Ctx) ViolateKnown(id, what string, detail map[string]any) {
	c.violate(id, what, detail)
}

func (c *Ctx) violate(id, what string, detail map[string]any) {
	c.failed = true
	// violations of a known-finding class occur in every case: they must never crowd out others
	nKnown, nOther := 0, 0
	for _, v := range c.Res.Violations {
		if v.Known != "" {
			if v.Known == id {
				nKnown++
			}
		} else {
			nOther++
		}
	}
	if id != "" && nKnown >= 3 {
		c.Res.Events["known-finding-occurrences-not-recorded:"+id]++
		return
	}
	if id == "" && nOther >= 25 {
		c.Res.Events["violations_not_recorded"]++
		return
	}
	c.Res.Violations = append(c.Res.Violations, Violation{
		Property: c.Prop, Tier: c.Tier, Seed: c.Seed, Case: c.Idx, What: what, Known: id, Detail: detail,
	})
	if c.Verbose {
		b, _ := json.MarshalIndent(detail, "", "  ")
		fmt.Printf("violation: %s\n%s\n", what, b)
	}
}

func (c *Ctx) Failed() bool { return c.failed }

// Inconclusive records a reason for which this run cannot be a verdict.
func (c *Ctx) Inconclusive(reason string) {
	if len(c.Res.Inconclusive) < 20 {
		c.Res.Inconclusive = append(c.Res.Inconclusive, reason)
	}
}

// SortedKeys is a helper for stable output.
func SortedKeys[V any](m map[string]V) []string {
	ks := make([]string, 0, len(m))
	for k := range m {
		ks = append(ks, k)
	}
	sort.Strings(ks)
	return ks
}
