package core

import "sort"

// Prop is one property's driver: a PRNG-determined list of cases, each of which
// drives the real code and feeds what it observes to the oracle.
type Prop interface {
	ID() string
	// Cases is the number of case indexes of the tier. Case i is fully determined by
	// (VERIF_SEED, property, i).
	Cases(tier string) int
	// Run executes case c.Idx.
	Run(c *Ctx)
	// Thresholds are the minimum feature counts a run must reach to count as a verdict.
	Thresholds(tier string) map[string]int64
	// Rule says how cases are generated and what makes one non-trivial.
	Rule() string
	Assumptions() []string
}

// Optional interfaces.

// Racy properties run their children with the -race binary.
type Racy interface{ Race() bool }

// Chunked properties choose how many cases one child process handles.
type Chunked interface{ Chunk(tier string) int }

// WithKnown properties re-run the reproducers of their known findings.
type WithKnown interface {
	// KnownRepro runs the reproducer of a known finding and reports whether it still fails.
	KnownRepro(f KnownFinding) (stillFails bool, err error)
}

// ParentStep lets a property do work in the parent after the children finished
// (cross-process comparisons, race-log counting).
type ParentStep interface {
	Parent(p *ParentCtx, merged *Result)
}

// Flusher properties are told when a child has run its last case (batched work).
type Flusher interface{ Flush(c *Ctx) }

// ChildEnv lets a property add environment variables for its children.
type ChildEnv interface {
	Env(tier string, workdir string) []string
}

// ParentCtx is what a ParentStep gets.
type ParentCtx struct {
	Tier    string
	Seed    int64
	WorkDir string // scratch directory of this run (removed afterwards)
	Bin     string // path of the vcheck binary used for children
	BinRace string
}

var registry = map[string]Prop{}

func Register(p Prop) { registry[p.ID()] = p }

func Lookup(id string) (Prop, bool) { p, ok := registry[id]; return p, ok }

func AllIDs() []string {
	ids := make([]string, 0, len(registry))
	for id := range registry {
		ids = append(ids, id)
	}
	sort.Strings(ids)
	return ids
}

// KnownFinding is one entry of /verif/known_findings.json.
type KnownFinding struct {
	Property    string   `json:"property"`
	Status      string   `json:"status"` // "known" or "fixed"
	ID          string   `json:"id,omitempty"`
	Commit      string   `json:"commit,omitempty"`
	What        string   `json:"what"`
	Class       string   `json:"class,omitempty"`
	FailsAs     string   `json:"fails_as,omitempty"`
	Reproducers []string `json:"reproducers,omitempty"`
}

type KnownFile struct {
	Findings []KnownFinding `json:"findings"`
}
