package props

import (
	"fmt"
	"strings"

	"github.com/remieven/ysgo"
	"github.com/remieven/ysgo/variable"

	"github.com/remieven/ysgo/verifharness/core"
	"github.com/remieven/ysgo/verifharness/hast"
	"github.com/remieven/ysgo/verifharness/model"
	"github.com/remieven/ysgo/verifharness/mon"
)

// C17 — custom commands receive exactly the arguments written in the script.
type c17 struct{}

func init() { core.Register(c17{}) }

func (c17) ID() string { return "C17" }

// EvalFeatures names the counters of judged executions.
func (c17) EvalFeatures() []string {
	return []string{"commands", "unregistered-name-is-error", "k3-commands", "commands-executed-again", "two-runners-separate-registries", "handlers-registered-in-mid-run"}
}

func (c17) Cases(tier string) int {
	if tier == "thorough" {
		return 40000
	}
	return 1000
}

var c17KeywordNames = []string{"iffy", "settings", "jumpy", "calling", "declared", "localize", "enumerate", "casey", "stopper", "waiting", "ifx", "setup", "callback", "jumps", "elseif_like_but_not"[:0] + "elifx", "enums", "cases", "locals", "stops", "waits"}
var c17PlainNames = []string{"déjà", "Ångström", "act", "Emote", "play_sound", "fx2", "déplacer", "移動", "ход", "a", "x_y_z", "Camera", "Stop", "STOP", "Wait", "sTop"}

// names the lexer reads as keywords although they only begin with one: known finding K3
var c17K3Names = []string{"elsewhere", "elseifx", "endiffy", "endenumx", "else_", "endifs", "endenumerate", "elsey"}

var c17HostileWords = []string{"true", "false", "TRUE", "True", "False", "-1", "-1.5", "007", "+1", "1e3", ".5", "5.", "0x10", "1_000", "nan", "NaN", "Nan", "inf", "Inf", "Infinity", "-inf", "-", "--1", "a:b", "1.2.3", "1-", "1,5", "0", "-0", "3.14159", "00.50", "12abc", "e", "0b1", "0o7", "1e", "١٢", "t", "f", "T", "F", "yes", "no", "on", "off", "null", "1e-3", "1E3", "0.", "-.5", "+.5", "1/2", "∞", "-1e3", "0e0",
	// decimal literals that are long, or too large / too small for a float64: numbers all the same
	"1000000000000000000000000", "3.1415926535897932384626433832", "-0.00000000000000000000000001", "000000000000000000000000042",
	"1" + strings.Repeat("0", 400), "-1" + strings.Repeat("0", 310), "0." + strings.Repeat("0", 400) + "1", strings.Repeat("9", 309) + ".5"}

func c17PoolText() string {
	var l []string
	for _, w := range c17HostileWords {
		l = append(l, c17Label(w))
	}
	return strings.Join(l, " ")
}

// c17Label names a hostile word in the evidence (long words are abbreviated).
func c17Label(w string) string {
	if len(w) > 40 {
		return fmt.Sprintf("%s...(%d characters)", w[:12], len(w))
	}
	return w
}

var c17PlainWords = []string{"voilà", "Åse", "😅", "naïveté", "ａｂ", "left", "Mae", "dérive", "日本", "x_1", "#hash", "a}b", "\"q\"", "'s'", "$var", "a/b", "a//b", "100%", "(p)", "[m]", "é"}

func (c17) Thresholds(tier string) map[string]int64 {
	th := map[string]int64{
		"commands":                         15000,
		"word:boolean":                     400,
		"word:number":                      1200,
		"word:negative-number":             500,
		"word:hostile-string":              5000,
		"word:plain-string":                2000,
		"arg:expression-number":            500,
		"arg:expression-boolean":           500,
		"arg:expression-string":            500,
		"sep:tab":                          2000,
		"sep:run-of-blanks":                2000,
		"sep:mixed":                        1000,
		"name:keyword-prefixed":            4000,
		"name:multi-byte":                  1000,
		"unregistered-name-is-error":       500,
		"unregistered-name-is-error-again": 1000,
		"stop-not-dispatched":              500,
		"zero-arguments":                   500,
		"k3-commands":                      500,
		"host-handler-registered-as-wait":  800,
		"sep:none-between-two-expressions": 300,
		"commands-executed-again":          3000,
		"two-runners-separate-registries":  800,
		"handlers-registered-in-mid-run":   800,
	}
	for _, w := range c17HostileWords {
		th["hostile:"+c17Label(w)] = 20
	}
	for _, nm := range c17KeywordNames {
		th["kwname:"+nm] = 20
	}
	return th
}

func (c17) Rule() string {
	return "case = one script of 30 generic commands <<name arg ...>> separated by lines, each registered under its name with a logging raw handler, plus one command under an unregistered name (must be an error) and a final <<stop>> with a handler registered under 'stop' (must never be invoked). Names: plain identifiers incl. multi-byte, and every keyword as a prefix (" + strings.Join(c17KeywordNames, ", ") + "); words: a hostile pool (" + c17PoolText() + ") and plain words incl. multi-byte and punctuation; {expression} arguments of each type surrounded by blanks; separators: single blank, runs of blanks, tabs, mixtures, also before >>. Oracle: the handler log (name, typed argument list, once, in order) equals the model's: a word is a boolean iff it is exactly true/false, a number iff it matches -?[0-9]+(\\.[0-9]+)?, otherwise a string; expressions arrive as their value. The raw handlers keep the argument slices they receive; at the end of the script each is compared with what it held when it was received. Further sub-workloads: two {expressions} written back to back (two arguments, nothing between them); a node that runs 2-5 commands over compound expressions of $n/$b/$s, changes the variables and jumps back to itself (every execution must deliver the values as they evaluate then); two runners over one script where the second registers another handler under the same name or none (each command reaches the handler of its own runner; a name registered only elsewhere is an error); a runner whose host replaces one handler and registers another under a new name in mid-run - right after a line, while a choice is awaited, or after a restore to its own snapshot, and after the first handler served 1-5 times (every later command statement reaches the handler registered under its name by then). Non-trivial: >=2 arguments of >=2 expected types, or a keyword-prefixed name, or a hostile word. Distinct by hash of the command's source text. Names beginning with else/endif/endenum are the known finding K3 and run in a sub-workload of their own."
}

func (c17) Assumptions() []string {
	return []string{
		"'decimal literal' is the grammar's own NUMBER (digits, optionally one point followed by digits), optionally negative; a decimal literal outside the range of a float64 is the number a correctly rounding conversion gives (an infinity or zero), as for a number literal in an expression",
		"a command whose NAME is a boolean or number word (<<true>>, <<42 x>>) is not generated: true / false are words of the language like the keywords, and 42 is not identifier-like",
		"words contain no blanks, tabs, '>' or '{'; an {expression} argument is always separated from neighbouring WORDS by at least one blank or tab (what a word glued to an expression means is not settled); two expressions may touch",
		"names that are exactly a keyword (if, set, jump, stop, wait ...) are not 'merely beginning with a keyword' and are not generated as custom commands",
		"K3 is matched only for a command whose name begins with else, endif or endenum and only when loading fails",
	}
}

func c17Sep(r *core.Rand, c *core.Ctx) string {
	switch r.PickW(50, 18, 18, 14) {
	case 1:
		c.Feature("sep:tab")
		return strings.Repeat("\t", r.Range(1, 2))
	case 2:
		c.Feature("sep:run-of-blanks")
		return strings.Repeat(" ", r.Range(2, 5))
	case 3:
		c.Feature("sep:mixed")
		return r.Pick(" \t", "\t ", "  \t  ", "\t\t ")
	}
	return " "
}

func (p c17) command(c *core.Ctx, name string, id int) (*hast.Stmt, bool) {
	r := c.R
	st := &hast.Stmt{K: hast.SCommand, Name: name, ID: id}
	nargs := r.PickW(10, 25, 30, 20, 10, 5)
	if r.Chance(1, 30) {
		nargs = r.Range(12, 60) // more arguments than any fixed-size buffer
		c.Feature("many-arguments")
	}
	types := map[hast.Ty]bool{}
	hostile := false
	for i := 0; i < nargs; i++ {
		switch r.PickW(40, 30, 30) {
		case 0:
			w := c17HostileWords[r.Intn(len(c17HostileWords))]
			st.Args = append(st.Args, hast.CmdArg{Word: w})
			c.Feature("hostile:" + c17Label(w))
			v := model.WordValue(w)
			types[v.T] = true
			switch {
			case v.T == hast.TBool:
				c.Feature("word:boolean")
			case v.T == hast.TNum && strings.HasPrefix(w, "-"):
				c.Feature("word:negative-number")
				c.Feature("word:number")
			case v.T == hast.TNum:
				c.Feature("word:number")
			default:
				c.Feature("word:hostile-string")
			}
			hostile = true
		case 1:
			w := c17PlainWords[r.Intn(len(c17PlainWords))]
			st.Args = append(st.Args, hast.CmdArg{Word: w})
			types[hast.TStr] = true
			c.Feature("word:plain-string")
		default:
			t := hast.Ty(r.Intn(3))
			var e *hast.Expr
			switch t {
			case hast.TNum:
				e = []*hast.Expr{hast.Num("3"), hast.Neg(hast.Num("2.5")), hast.Bin("+", hast.Num("1"), hast.Num("2")), hast.Var("n")}[r.Intn(4)]
				c.Feature("arg:expression-number")
			case hast.TBool:
				e = []*hast.Expr{hast.Bool(true), hast.Not(hast.Var("b")), hast.Bin("<", hast.Num("1"), hast.Num("2"))}[r.Intn(3)]
				c.Feature("arg:expression-boolean")
			default:
				e = []*hast.Expr{hast.Str("two words"), hast.Str("true"), hast.Str("12"), hast.Var("s"), hast.Bin("+", hast.Str("a"), hast.Str(">>"))}[r.Intn(5)]
				c.Feature("arg:expression-string")
			}
			st.Args = append(st.Args, hast.CmdArg{X: e})
			types[t] = true
		}
	}
	if nargs == 0 {
		c.Feature("zero-arguments")
	}
	for i := 0; i < len(st.Args); i++ {
		if i > 0 && st.Args[i].X != nil && st.Args[i-1].X != nil && r.Chance(1, 2) {
			// two expressions written back to back are still two arguments, with nothing between them
			st.Sep = append(st.Sep, "")
			c.Feature("sep:none-between-two-expressions")
			continue
		}
		st.Sep = append(st.Sep, c17Sep(r, c))
	}
	tail := ""
	if r.Chance(1, 3) {
		tail = r.Pick(" ", "  ", "\t")
	}
	st.Sep = append(st.Sep, tail)
	return st, len(st.Args) >= 2 && len(types) >= 2 || hostile
}

var c17Pre = map[string]model.Val{"n": model.N(42), "b": model.B(false), "s": model.S("from var")}

func (p c17) Run(c *core.Ctx) {
	r := c.R
	id := 0
	var body []*hast.Stmt
	var names []string
	nt := map[*hast.Stmt]bool{}
	for i := 0; i < 30; i++ {
		id++
		var name string
		kw := false
		if r.Chance(1, 2) {
			name = c17KeywordNames[r.Intn(len(c17KeywordNames))]
			c.Feature("name:keyword-prefixed")
			c.Feature("kwname:" + name)
			kw = true
		} else {
			name = c17PlainNames[r.Intn(len(c17PlainNames))]
			if len([]rune(name)) != len(name) {
				c.Feature("name:multi-byte")
			}
		}
		names = append(names, name)
		st, interesting := p.command(c, name, id)
		nt[st] = interesting || kw
		body = append(body, st)
		c.Feature("commands")
		if i%5 == 4 {
			id++
			body = append(body, &hast.Stmt{K: hast.SLine, Parts: []hast.Part{hast.Lit(fmt.Sprintf("L%d", id))}, ID: id})
		}
	}
	// the stop command must end the dialogue without reaching a handler registered as "stop"
	body = append(body, &hast.Stmt{K: hast.SStop}, &hast.Stmt{K: hast.SLine, Parts: []hast.Part{hast.Lit("never shown")}})
	prog := &hast.Program{Readers: 1, Nodes: []*hast.Node{{Title: "Start", Body: body}}}
	scripts := hast.Render(prog, hast.L0())
	pair, err, pan := NewPair(prog, scripts, PairOpts{Pre: c17Pre, ExtraCmds: names}, nil)
	if err != nil || pan != "" {
		c.Violate("a script of generic commands failed to load", map[string]any{"readers": scripts, "error": fmt.Sprint(err), "panic": pan})
		return
	}
	// the handlers keep the argument slices they were given (a host that queues commands): what a handler
	// received stays what it received when later commands run
	type keptArgs struct {
		name  string
		slice []*variable.Value
		copy  string
	}
	var kept []keptArgs
	render := func(args []*variable.Value) string {
		a := make([]model.Val, len(args))
		for i, v := range args {
			a[i], _ = mon.ToVal(v)
		}
		return mon.FmtArgs(a)
	}
	for _, nm := range names {
		nm := nm
		pair.R.DR.AddCommand(nm, func(args []*variable.Value) <-chan error {
			txt := render(args)
			pair.RLog.Add("<<" + nm + " " + txt + ">>")
			kept = append(kept, keptArgs{nm, args, txt})
			ch := make(chan error, 1)
			ch <- nil
			return ch
		})
	}
	if r.Chance(1, 3) {
		// the host restores the runner from its own initial snapshot AFTER it registered its handlers: the
		// registrations are the runner's configuration, not dialogue state
		if err := pair.R.RestoreAt(pair.R.DR.Snapshot()); err != nil {
			c.Violate("restoring a runner from its own initial snapshot failed: "+err.Error(), map[string]any{"readers": scripts})
			return
		}
		pair.M.Restore(pair.M.Check.Clone())
		c.Feature("handlers-registered-before-a-restore")
	}
	stopCalls := 0
	pair.R.DR.AddCommand("stop", mon.AdaptCmd(func(a []model.Val) error {
		stopCalls++
		pair.RLog.Add("<<stop " + mon.FmtArgs(a) + ">> DISPATCHED")
		return nil
	}))
	for step := 0; step < 60; step++ {
		want, got, diff := pair.Step(0)
		c.Event(want.Kind.String(), 1)
		if diff != "" {
			c.Violate("a command did not reach its handler with exactly the arguments written: "+diff, pair.Detail(nil, want, got, diff))
			return
		}
		if want.Kind == model.OEnd || want.Kind == model.OErr {
			break
		}
	}
	if stopCalls != 0 {
		c.Violate("<<stop>> was dispatched to a handler", map[string]any{"readers": scripts, "trace": pair.Trace})
		return
	}
	for i, k := range kept {
		c.Feature("kept-argument-slices-rechecked")
		if now := render(k.slice); now != k.copy {
			c.Violate("the arguments a handler received changed after it returned (when later commands ran)", map[string]any{
				"readers": scripts, "command_index": i, "command": k.name, "received": k.copy, "now": now})
			return
		}
	}
	c.Feature("stop-not-dispatched")
	for _, st := range body {
		if nt[st] {
			lay := hast.L0()
			c.Nontrivial(strings.Join(hast.Render(&hast.Program{Readers: 1, Nodes: []*hast.Node{{Title: "x", Body: []*hast.Stmt{st}}}}, lay), ""))
		}
	}
	if c.WantSample() {
		c.Sample(map[string]any{"script": scripts[0], "handler_log": pair.RLog.E[:min(8, len(pair.RLog.E))]})
	}

	// ---- a handler registered under the name of the built-in wait command is the one that is reached
	{
		st, _ := p.command(c, "wait", 1)
		wp := &hast.Program{Readers: 1, Nodes: []*hast.Node{{Title: "Start", Body: []*hast.Stmt{st, {K: hast.SLine, Parts: []hast.Part{hast.Lit("after")}}}}}}
		ws := hast.Render(wp, hast.L0())
		wpair, err, pan := NewPair(wp, ws, PairOpts{Pre: c17Pre, ExtraCmds: []string{"wait"}}, nil)
		if err != nil || pan != "" {
			c.Violate("a script with a custom wait command failed to load", map[string]any{"readers": ws, "error": fmt.Sprint(err), "panic": pan})
			return
		}
		want, got, diff := wpair.Step(0)
		if diff != "" {
			c.Violate("a command named like the built-in wait did not reach the handler the host registered under that name: "+diff, wpair.Detail(nil, want, got, diff))
			return
		}
		c.Feature("host-handler-registered-as-wait")
	}

	// ---- an unregistered name is an error
	{
		name := r.Pick("unregistered", "iffyy", "Act", "stoppp", "ghost")
		st, _ := p.command(c, name, 1)
		up := &hast.Program{Readers: 1, Nodes: []*hast.Node{{Title: "Start", Body: []*hast.Stmt{st, {K: hast.SLine, Parts: []hast.Part{hast.Lit("after")}}}}}}
		us := hast.Render(up, hast.L0())
		upair, err, pan := NewPair(up, us, PairOpts{Pre: c17Pre}, nil)
		if err != nil || pan != "" {
			c.Violate("a script with a command under an unregistered name failed to load", map[string]any{"readers": us, "error": fmt.Sprint(err), "panic": pan})
			return
		}
		want, got, diff := upair.Step(0)
		if diff != "" {
			c.Violate("a command under an unregistered name did not produce an error: "+diff, upair.Detail(nil, want, got, diff))
			return
		}
		// ... and every time: the host goes back to the beginning of the node (RestoreAt of the initial snapshot says
		// where the dialogue resumes, which an error does not) and the same statement runs again, 2-4 times
		for again := r.Range(2, 4); again > 0; again-- {
			if err := upair.R.RestoreAt(upair.R.DR.Snapshot()); err != nil {
				c.Violate("restoring a runner from its own snapshot failed: "+err.Error(), map[string]any{"readers": us})
				return
			}
			if o := upair.R.Next(0); o.Kind != mon.KErr {
				c.Violate("a command under an unregistered name produced an error the first time it ran but not when the same statement ran again after a restore", map[string]any{
					"readers": us, "observed": o.String(), "trace": upair.Trace})
				return
			}
			c.Feature("unregistered-name-is-error-again")
		}
		c.Feature("unregistered-name-is-error")
	}

	// ---- command statements executed several times: arguments are evaluated at every execution
	{
		var loop []*hast.Stmt
		exprs := []*hast.Expr{
			hast.Bin("*", hast.Var("n"), hast.Num("10")), hast.Neg(hast.Var("n")), hast.Bin(">", hast.Var("n"), hast.Num("43")),
			hast.Bin("+", hast.Str("x"), hast.Call("string", hast.Var("n"))), hast.Not(hast.Var("b")), hast.Bin("+", hast.Var("s"), hast.Str("!")),
			hast.Var("n"), hast.Var("b"), hast.Var("s"), hast.Call("p", hast.Num("1"), hast.Var("n")), hast.Bin("-", hast.Num("100"), hast.Neg(hast.Var("n"))),
			hast.Bin("and", hast.Var("b"), hast.Bool(true)), hast.Neg(hast.Neg(hast.Var("n"))),
			// literals under unary operators: the script's own constants, evaluated at every execution
			hast.Neg(hast.Num("3")), hast.Not(hast.Bool(true)), hast.Neg(hast.Num("2.5")), hast.Not(hast.Bool(false)),
		}
		var lnames []string
		for i := r.Range(2, 5); i > 0; i-- {
			name := c17PlainNames[r.Intn(len(c17PlainNames))]
			lnames = append(lnames, name)
			st := &hast.Stmt{K: hast.SCommand, Name: name, ID: 100 + i}
			for k := r.Range(1, 4); k > 0; k-- {
				if r.Chance(1, 4) {
					st.Args = append(st.Args, hast.CmdArg{Word: c17HostileWords[r.Intn(len(c17HostileWords))]})
				} else {
					st.Args = append(st.Args, hast.CmdArg{X: exprs[r.Intn(len(exprs))]})
				}
			}
			loop = append(loop, st)
		}
		loop = append(loop,
			&hast.Stmt{K: hast.SSet, Var: "n", Op: "=", X: hast.Bin("+", hast.Var("n"), hast.Num("1"))},
			&hast.Stmt{K: hast.SSet, Var: "b", Op: "=", X: hast.Not(hast.Var("b"))},
			&hast.Stmt{K: hast.SSet, Var: "s", Op: "=", X: hast.Bin("+", hast.Var("s"), hast.Str("x"))},
			&hast.Stmt{K: hast.SIf, Clauses: []*hast.Clause{{Cond: hast.Bin("<", hast.Var("n"), hast.Num("45")), Body: []*hast.Stmt{{K: hast.SJump, Target: "Start"}}}}},
			&hast.Stmt{K: hast.SLine, Parts: []hast.Part{hast.Lit("done")}})
		lp := &hast.Program{Readers: 1, Nodes: []*hast.Node{{Title: "Start", Body: loop}}}
		ls := hast.Render(lp, hast.L0())
		lpair, err, pan := NewPair(lp, ls, PairOpts{Pre: c17Pre, ExtraCmds: lnames}, nil)
		if err != nil || pan != "" {
			c.Violate("a script that runs its commands in a loop failed to load", map[string]any{"readers": ls, "error": fmt.Sprint(err), "panic": pan})
			return
		}
		for step := 0; step < 20; step++ {
			want, got, diff := lpair.Step(0)
			if diff != "" {
				c.Violate("a command statement executed again did not reach its handler with the arguments as they evaluate now: "+diff, lpair.Detail(nil, want, got, diff))
				return
			}
			if want.Kind == model.OEnd || want.Kind == model.OErr {
				break
			}
		}
		c.FeatureN("commands-executed-again", 2*(len(loop)-5))
		c.Feature("loop-scripts")
	}

	// ---- registrations belong to one runner: a second runner created in between has handlers of its own
	{
		name := c17PlainNames[r.Intn(len(c17PlainNames))]
		st1, _ := p.command(c, name, 1)
		tp := &hast.Program{Readers: 1, Nodes: []*hast.Node{{Title: "Start", Body: []*hast.Stmt{st1, {K: hast.SLine, Parts: []hast.Part{hast.Lit("after")}}}}}}
		ts := hast.Render(tp, hast.L0())
		first, err, pan := NewPair(tp, ts, PairOpts{Pre: c17Pre, ExtraCmds: []string{name}}, nil)
		if err != nil || pan != "" {
			c.Violate("a script of generic commands failed to load", map[string]any{"readers": ts, "error": fmt.Sprint(err), "panic": pan})
			return
		}
		// another runner over the same script: registers a different handler under the same name, or none
		otherCalls := 0
		ost := mon.NewRecStorer()
		for k, v := range c17Pre {
			ost.HostSet(k, v)
		}
		other, err, pan := mon.Create(ost, "", ts)
		if err != nil || pan != "" {
			c.Violate("a script of generic commands failed to load", map[string]any{"readers": ts, "error": fmt.Sprint(err), "panic": pan})
			return
		}
		registered := r.Bool()
		if registered {
			other.DR.AddCommand(name, mon.AdaptCmd(func([]model.Val) error { otherCalls++; return nil }))
		}
		want, got, diff := first.Step(0)
		if diff != "" || otherCalls != 0 {
			if diff == "" {
				diff = "the handler registered on ANOTHER runner was invoked"
			}
			c.Violate("a command did not reach the handler registered on its own runner: "+diff, first.Detail(nil, want, got, diff))
			return
		}
		before := len(first.RLog.E)
		o := other.Next(0)
		switch {
		case len(first.RLog.E) != before:
			c.Violate("a command run by one runner reached the handler registered on another runner", map[string]any{"readers": ts, "second_runner_got": o.String(), "first_runner_log": first.RLog.E})
			return
		case registered && (o.Kind != mon.KLine || otherCalls != 1):
			c.Violate("a command did not reach the handler registered on its own runner (second runner)", map[string]any{"readers": ts, "second_runner_got": o.String(), "handler_calls": otherCalls})
			return
		case !registered && o.Kind != mon.KErr:
			c.Violate("a command under a name registered only on ANOTHER runner did not produce an error", map[string]any{"readers": ts, "second_runner_got": o.String()})
			return
		}
		c.Feature("two-runners-separate-registries")
	}

	// ---- the host registers, and replaces, handlers while the dialogue is under way: a command statement
	// reaches the handler registered under its name AT THE TIME THE STATEMENT RUNS
	{
		a := c17PlainNames[r.Intn(len(c17PlainNames))]
		b := a
		for b == a {
			b = c17PlainNames[r.Intn(len(c17PlainNames))]
		}
		reps := r.Range(1, 5) // how often the first handler serves before it is replaced
		when := r.Intn(3)     // 0 right after a line, 1 while a choice is awaited, 2 after a restore to the own snapshot
		var src strings.Builder
		src.WriteString("title: Start\n---\n")
		for i := 0; i < reps; i++ {
			fmt.Fprintf(&src, "<<%s %d>>\n", a, i)
		}
		switch when {
		case 1:
			src.WriteString("-> one\n    chosen\n-> two\n    not chosen\n")
		default:
			src.WriteString("before\n")
		}
		fmt.Fprintf(&src, "<<%s second true>>\n<<%s first -2.5>>\n<<%s again>>\nafter\n===\n", a, b, a)
		script := src.String()
		st := mon.NewRecStorer()
		run, err, pan := mon.Create(st, "", []string{script})
		if err != nil || pan != "" {
			c.Violate("a script of generic commands failed to load", map[string]any{"readers": []string{script}, "error": fmt.Sprint(err), "panic": pan})
			return
		}
		var log []string
		handler := func(tag string) ysgo.YarnSpinnerCommand {
			return func(args []*variable.Value) <-chan error {
				log = append(log, tag+"("+render(args)+")")
				ch := make(chan error, 1)
				ch <- nil
				return ch
			}
		}
		run.DR.AddCommand(a, handler(a+"#1"))
		var want []string
		for i := 0; i < reps; i++ {
			want = append(want, fmt.Sprintf("%s#1(n:%d)", a, i))
		}
		fail := func(what string, o mon.Obs) {
			c.Violate("handlers registered or replaced while the dialogue is under way: "+what, map[string]any{
				"readers": []string{script}, "registered_in_mid_run_when": []string{"after a line", "while a choice is awaited", "after a restore"}[when],
				"observed": o.String(), "handler_log": log, "expected_handler_log": want})
		}
		o := run.Next(0)
		if when == 1 {
			if o.Kind != mon.KOptions {
				fail("the option group was not presented", o)
				return
			}
		} else if o.Kind != mon.KLine || o.Text != "before" {
			fail("the first line was not presented", o)
			return
		}
		if when == 2 {
			if err := run.RestoreAt(run.DR.Snapshot()); err != nil {
				fail("restoring the runner from its own snapshot failed: "+err.Error(), o)
				return
			}
			for i := 0; i < reps; i++ {
				want = append(want, fmt.Sprintf("%s#1(n:%d)", a, i))
			}
			if o = run.Next(0); o.Kind != mon.KLine || o.Text != "before" {
				fail("the first line was not presented again after the restore", o)
				return
			}
		}
		// now the host changes its mind
		run.DR.AddCommand(a, handler(a+"#2"))
		run.DR.AddCommand(b, handler(b+"#1"))
		want = append(want, a+`#2(s:"second",b:true)`, b+`#1(s:"first",n:-2.5)`, a+`#2(s:"again")`)
		if when == 1 {
			if o = run.Next(0); o.Kind != mon.KLine || o.Text != "chosen" {
				fail("the chosen option's body was not run", o)
				return
			}
		}
		o = run.Next(0)
		if o.Kind != mon.KLine || o.Text != "after" || strings.Join(log, " ") != strings.Join(want, " ") {
			fail("the commands after the registration did not reach the handlers registered by then, once each, in order", o)
			return
		}
		c.Feature("handlers-registered-in-mid-run")
		c.Feature(fmt.Sprintf("mid-run-registration-when:%d", when))
	}

	// ---- K3 sub-workload
	{
		name := c17K3Names[r.Intn(len(c17K3Names))]
		st, _ := p.command(c, name, 1)
		kp := &hast.Program{Readers: 1, Nodes: []*hast.Node{{Title: "Start", Body: []*hast.Stmt{st, {K: hast.SLine, Parts: []hast.Part{hast.Lit("after")}}}}}}
		ks := hast.Render(kp, hast.L0())
		kpair, err, pan := NewPair(kp, ks, PairOpts{Pre: c17Pre, ExtraCmds: []string{name}}, nil)
		c.Feature("k3-commands")
		switch {
		case pan != "":
			c.Violate("loading a command whose name begins with else/endif/endenum panicked", map[string]any{"readers": ks, "panic": pan})
		case err != nil:
			c.ViolateKnown("K3", "a generic command whose name begins with else/endif/endenum is lexed as a keyword and refused", map[string]any{"readers": ks, "error": err.Error()})
		default:
			want, got, diff := kpair.Step(0)
			if diff != "" {
				// loaded, but as something else than the command that was written
				c.ViolateKnown("K3", "a generic command whose name begins with else/endif/endenum is lexed as a keyword: "+diff, kpair.Detail(nil, want, got, diff))
			}
		}
	}
}

// KnownRepro runs the reproducers of K3.
func (c17) KnownRepro(f core.KnownFinding) (bool, error) {
	for _, rep := range f.Reproducers {
		r, err, pan := mon.Create(nil, "", []string{rep})
		if pan != "" {
			return false, fmt.Errorf("reproducer panics instead of failing as recorded: %s", pan)
		}
		if err != nil {
			return true, nil
		}
		called := false
		r.DR.AddCommand("elsewhere", mon.AdaptCmd(func([]model.Val) error { called = true; return nil }))
		o := r.Next(0)
		if !called || o.Kind != mon.KLine {
			return true, nil
		}
	}
	return false, nil
}
