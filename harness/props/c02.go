package props

import (
	"fmt"
	"math"
	"strconv"
	"strings"

	"github.com/remieven/ysgo/verifharness/core"
	"github.com/remieven/ysgo/verifharness/gen"
	"github.com/remieven/ysgo/verifharness/hast"
	"github.com/remieven/ysgo/verifharness/model"
)

// C02 — expressions follow Yarn's operator table, precedence and short-circuiting.
type c02 struct{}

func init() { core.Register(c02{}) }

func (c02) ID() string { return "C02" }

// EvalFeatures names the counters of judged executions.
func (c02) EvalFeatures() []string { return []string{"expressions"} }

func (c02) Cases(tier string) int {
	if tier == "thorough" {
		return 30000
	}
	return 800
}

var tyNames = []string{"number", "boolean", "string"}

func (c02) Thresholds(tier string) map[string]int64 {
	th := map[string]int64{
		"expressions":                               20000,
		"comparison-of-numbers-a-few-ulps-apart":    3000,
		"printing:minimal":                          6000,
		"printing:full":                             6000,
		"printing:redundant":                        6000,
		"precedence-decides":                        3000,
		"short-circuit":                             1000,
		"short-circuit-skips-probe":                 100,
		"planted-fault-reached":                     500,
		"planted-fault-skipped":                     30,
		"context:call":                              2000,
		"context:line":                              2000,
		"context:set":                               2000,
		"context:if":                                300,
		"context:command":                           1000,
		"table-rows":                                500,
		"expressions-evaluated-twice-by-one-runner": 8000,
		"side-effecting-operand-or-argument":        2000,
		"stacked-unary-operators":                   10,
		"special-operand:nan":                       50,
		"special-operand:inf":                       50,
		"special-operand:-0":                        20,
	}
	// the complete operator x type-pair matrix must have been hit
	for _, op := range hast.BinOps {
		for _, a := range tyNames {
			if op == "and" || op == "or" {
				if a != "boolean" {
					th["cell:"+op+":"+a+",*"] = 1
					continue
				}
			}
			for _, b := range tyNames {
				th["cell:"+op+":"+a+","+b] = 1
			}
		}
	}
	for _, a := range tyNames {
		th["cell:neg:"+a] = 1
		th["cell:not:"+a] = 1
	}
	return th
}

func (c02) Exhaustive(tier string) (bool, string) {
	return true, "case 0 enumerates the complete table {14 binary operators} x {9 operand type pairs} and {2 unary operators} x {3 types}, each with several operand values including 0, -0, NaN, +-Inf and the empty string (evidence: coverage.features cell:*)"
}

func (c02) Rule() string {
	return "case 0 = the complete operator table (every binary operator x every ordered pair of operand types, every unary operator x every type, operands as literals and as variables pre-loaded through the store so that -0, NaN and +-Inf occur). Every other case = 30 random typed expression trees (depth <=6) over literals, pre-loaded variables, built-ins and logged probe calls p(id,v); each tree is printed three ways (minimal parentheses by the grammar's precedence/associativity, fully parenthesised, minimal + redundant parentheses) with a PRNG operator spelling per occurrence, and one tree in four gets one planted ill-typed leaf at a PRNG position; four more expressions per case use bump(), a host function that increments a variable through the store, next to reads of that variable, so that the order in which operands and arguments are evaluated is observable. four more compare numbers that are 1-40 units in the last place apart (0.1+0.2 with 0.3, 2^53 with 2^53+2, 1 with its successor, 435 with 4.35*100): ==, !=, <, <=, >, >= are exact. Each printing is placed in one of: <<call cap(id, E)>>, a line {E}, <<set $r to E>>, <<if E>>, a command argument {E}. Half of the scripts loop once through a jump so that the same runner evaluates every statement twice on the same parsed tree, the second time with other values in the variables. Oracle: the reference evaluator - typed value (bit-exact, any NaN = any NaN), error/no error, and the ordered log of probe invocations (short-circuit, left-to-right single evaluation). Non-trivial: >=2 operators of different precedence levels, or a short-circuit that skips a probe, or a planted fault that is reached. Distinct by hash of the printed expression."
}

func (c02) Assumptions() []string {
	return []string{
		"string literals contain neither double quotes nor backslashes (escapes inside string literals are not part of the property)",
		"errors are compared as error / no error, never by message",
		"scripts are cut after a statement the model predicts to fail: what a runner does after an error is not specified",
		"on a failing statement the probe log is not compared (the property does not say how much is evaluated before the fault is noticed)",
	}
}

// cloneExpr deep-copies an expression.
func cloneExpr(e *hast.Expr) *hast.Expr {
	c := *e
	c.Args = make([]*hast.Expr, len(e.Args))
	for i, a := range e.Args {
		c.Args[i] = cloneExpr(a)
	}
	return &c
}

func countNodes(e *hast.Expr) int {
	n := 1
	for _, a := range e.Args {
		n += countNodes(a)
	}
	return n
}

// plantFault replaces the k-th node (preorder) by a leaf of another type.
func plantFault(r *core.Rand, e *hast.Expr, ty func(*hast.Expr) hast.Ty) *hast.Expr {
	c := cloneExpr(e)
	k := r.Intn(countNodes(c))
	var walk func(e *hast.Expr) bool
	walk = func(e *hast.Expr) bool {
		if k == 0 {
			t := ty(e)
			var repl *hast.Expr
			switch t {
			case hast.TNum:
				repl = []*hast.Expr{hast.Str("zz"), hast.Bool(true)}[r.Intn(2)]
			case hast.TBool:
				repl = []*hast.Expr{hast.Num("3"), hast.Str("true")}[r.Intn(2)]
			default:
				repl = []*hast.Expr{hast.Num("4"), hast.Bool(false)}[r.Intn(2)]
			}
			*e = *repl
			return true
		}
		k--
		for _, a := range e.Args {
			if walk(a) {
				return true
			}
		}
		return false
	}
	walk(c)
	return c
}

// staticType infers the type of a well-typed generated expression.
func staticType(vars map[string]hast.Ty) func(e *hast.Expr) hast.Ty {
	var f func(e *hast.Expr) hast.Ty
	f = func(e *hast.Expr) hast.Ty {
		switch e.K {
		case hast.ENum, hast.ENeg:
			return hast.TNum
		case hast.EBool, hast.ENot:
			return hast.TBool
		case hast.EStr:
			return hast.TStr
		case hast.EVar:
			return vars[e.Text]
		case hast.ECall:
			switch e.Text {
			case "p", "pure":
				return f(e.Args[len(e.Args)-1])
			case "string":
				return hast.TStr
			case "visited":
				return hast.TBool
			}
			return hast.TNum
		case hast.EBin:
			switch e.Text {
			case "+":
				return f(e.Args[0])
			case "*", "/", "%", "-":
				return hast.TNum
			}
			return hast.TBool
		}
		return hast.TNum
	}
	return f
}

var c02Pre = map[string]model.Val{
	"n1": model.N(3), "n2": model.N(-2.5), "n3": model.N(0), "nz": model.N(math.Copysign(0, -1)),
	"nan": model.N(math.NaN()), "inf": model.N(math.Inf(1)), "ninf": model.N(math.Inf(-1)), "big": model.N(1e300),
	"b1": model.B(true), "b2": model.B(false),
	"s1": model.S("left"), "s2": model.S(""), "s3": model.S("Ünï"),
	"pass": model.N(0), "cnt": model.N(0),
	// pairs of different doubles that are 1 to 40 units in the last place apart: comparisons are exact
	"c1a": model.N(0.1 + 0.2), "c1b": model.N(0.3), "c2a": model.N(9007199254740992), "c2b": model.N(9007199254740994),
	"c3a": model.N(1), "c3b": model.N(math.Nextafter(1, 2)), "c4a": model.N(1e-300), "c4b": model.N(1e-300 * (1 + 40*0x1p-52)),
	"c5a": model.N(435), "c5b": model.N(4.35 * 100),
}

func c02Scope(id *int) *gen.Scope {
	return &gen.Scope{
		Vars:    map[hast.Ty][]string{hast.TNum: {"n1", "n2", "n3", "nz", "nan", "inf", "ninf", "big"}, hast.TBool: {"b1", "b2"}, hast.TStr: {"s1", "s2", "s3"}},
		Probes:  true,
		NextID:  id,
		Builtin: true,
		// literals whose sums and products round (so that re-association is visible), next to exact ones
		NumLits: []string{"0", "1", "2", "3", "5", "7", "10", "100", "0.5", "2.5", "1.25", "0.1", "0.2", "0.3", "0.7", "3.3", "10000000000000000", "12",
			// beyond the range of a float64 (an infinity) and below it (zero)
			"1" + strings.Repeat("0", 309), "0." + strings.Repeat("0", 330) + "1"},
	}
}

type exprItem struct {
	stmt    *hast.Stmt
	printed string
	kind    string // printing mode
	levels  int
	planted bool
}

// wrap places expression e (of static type t) in a statement context.
func wrapExpr(r *core.Rand, e *hast.Expr, t hast.Ty, id *int, lay *hast.Layout) (*hast.Stmt, string) {
	next := func() int { *id++; return *id }
	ctx := r.PickW(35, 25, 20, 8, 12)
	if ctx == 3 && t != hast.TBool {
		ctx = 0
	}
	switch ctx {
	case 0:
		return &hast.Stmt{K: hast.SCall, X: hast.Call("cap", hast.Num(strconv.Itoa(next())), e), ExprLay: lay, ID: next()}, "call"
	case 1:
		return &hast.Stmt{K: hast.SLine, Parts: []hast.Part{hast.Lit(fmt.Sprintf("X%d ", next())), hast.Inl(e), hast.Lit(" .")}, ExprLay: lay, ID: next()}, "line"
	case 2:
		return &hast.Stmt{K: hast.SSet, Var: "r" + strconv.Itoa(next()), Op: "=", X: e, ExprLay: lay, ID: next()}, "set"
	case 3:
		capN := func(v string) []*hast.Stmt {
			return []*hast.Stmt{{K: hast.SCall, X: hast.Call("cap", hast.Num(strconv.Itoa(next())), hast.Num(v)), ID: next()}}
		}
		return &hast.Stmt{K: hast.SIf, ExprLay: lay, ID: next(), Clauses: []*hast.Clause{{Cond: e, Body: capN("1")}, {Body: capN("0")}}}, "if"
	default:
		return &hast.Stmt{K: hast.SCommand, Name: "act", Args: []hast.CmdArg{{Word: "c" + strconv.Itoa(next())}, {X: e}}, ExprLay: lay, ID: next()}, "command"
	}
}

func (p c02) Run(c *core.Ctx) {
	r := c.R
	id := 0
	var items []exprItem
	if c.Idx == 0 {
		items = p.table(c, &id)
	} else {
		sc := c02Scope(&id)
		vars := map[string]hast.Ty{}
		for t, vs := range sc.Vars {
			for _, v := range vs {
				vars[v] = t
			}
		}
		ty := staticType(vars)
		for i := 0; i < 30; i++ {
			t := hast.Ty(r.Intn(3))
			maxDepth := 6
			if c.Thorough() {
				maxDepth = 8
			}
			e := sc.Expr(r, t, r.Range(1, maxDepth))
			planted := false
			if r.Chance(1, 4) {
				e = plantFault(r, e, ty)
				planted = true
			}
			_, levels := gen.Count(e)
			for mode := 0; mode < 3; mode++ {
				lay := &hast.Layout{Paren: mode, Spell: true, Blanks: r.Chance(1, 3), R: r.Fork(), Stats: map[string]int{}}
				st, ctx := wrapExpr(r, e, t, &id, lay)
				items = append(items, exprItem{stmt: st, printed: lay.Expr(e), kind: []string{"minimal", "full", "redundant"}[mode], levels: len(levels), planted: planted})
				c.Feature("context:" + ctx)
			}
		}
	}
	if c.Idx != 0 {
		// evaluation order made observable through a side effect on the store
		for k := 0; k < 4; k++ {
			var e *hast.Expr
			switch r.Intn(6) {
			case 0:
				e = hast.Call("p", hast.Call("bump"), hast.Var("cnt"))
			case 1:
				e = hast.Bin("+", hast.Bin("*", hast.Call("bump"), hast.Num("100")), hast.Var("cnt"))
			case 2:
				e = hast.Bin("-", hast.Var("cnt"), hast.Bin("*", hast.Call("bump"), hast.Num("100")))
			case 3:
				e = hast.Call("p", hast.Var("cnt"), hast.Bin("+", hast.Call("bump"), hast.Var("cnt")))
			case 4:
				e = hast.Call("p", hast.Call("p", hast.Num("1"), hast.Call("bump")), hast.Bin("+", hast.Var("cnt"), hast.Call("bump")))
			default:
				e = hast.Bin("+", hast.Bin("+", hast.Var("cnt"), hast.Call("bump")), hast.Bin("*", hast.Var("cnt"), hast.Call("bump")))
			}
			lay := &hast.Layout{Paren: r.Intn(3), Spell: true, R: r.Fork(), Stats: map[string]int{}}
			st, ctx := wrapExpr(r, e, hast.TNum, &id, lay)
			items = append(items, exprItem{stmt: st, printed: lay.Expr(e), kind: []string{"minimal", "full", "redundant"}[lay.Paren], levels: 2})
			c.Feature("context:" + ctx)
			c.Feature("side-effecting-operand-or-argument")
		}
	}
	if c.Idx != 0 {
		// equality and ordering of numbers a few units in the last place apart (no tolerance anywhere)
		for k := 0; k < 4; k++ {
			pair := r.Pick("c1", "c2", "c3", "c4", "c5")
			a, b := hast.Var(pair+"a"), hast.Var(pair+"b")
			if r.Bool() {
				a, b = b, a
			}
			var e *hast.Expr
			switch r.Intn(4) {
			case 0:
				e = hast.Bin(r.Pick("==", "!=", "<", "<=", ">", ">="), a, b)
			case 1:
				e = hast.Bin(r.Pick("==", "!="), hast.Bin("+", hast.Num("0.1"), hast.Num("0.2")), hast.Num("0.3"))
			case 2:
				e = hast.Bin(r.Pick("==", "!="), hast.Bin("-", hast.Num("1"), hast.Num("0.9")), hast.Num("0.1"))
			default:
				e = hast.Not(hast.Bin("==", a, b))
			}
			lay := &hast.Layout{Paren: r.Intn(3), Spell: true, R: r.Fork(), Stats: map[string]int{}}
			st, ctx := wrapExpr(r, e, hast.TBool, &id, lay)
			items = append(items, exprItem{stmt: st, printed: lay.Expr(e), kind: []string{"minimal", "full", "redundant"}[lay.Paren], levels: 2})
			c.Feature("context:" + ctx)
			c.Feature("comparison-of-numbers-a-few-ulps-apart")
		}
	}
	p.runItems(c, items)
}

// table builds the complete operator table.
func (c02) table(c *core.Ctx, id *int) []exprItem {
	operands := map[hast.Ty][]*hast.Expr{
		hast.TNum:  {hast.Num("7"), hast.Num("0"), hast.Num("2.5"), hast.Var("n2"), hast.Var("nz"), hast.Var("nan"), hast.Var("inf"), hast.Var("ninf"), hast.Bin("/", hast.Num("1"), hast.Num("0"))},
		hast.TBool: {hast.Bool(true), hast.Bool(false), hast.Var("b1"), hast.Var("b2")},
		hast.TStr:  {hast.Str("a"), hast.Str(""), hast.Var("s1"), hast.Var("s3")},
	}
	var items []exprItem
	add := func(e *hast.Expr, t hast.Ty) {
		lay := &hast.Layout{Paren: 0, Spell: true, R: c.R.Fork(), Stats: map[string]int{}}
		*id++
		st := &hast.Stmt{K: hast.SCall, X: hast.Call("cap", hast.Num(strconv.Itoa(*id)), e), ExprLay: lay, ID: *id}
		items = append(items, exprItem{stmt: st, printed: lay.Expr(e), kind: "minimal"})
		c.Feature("table-rows")
	}
	for _, op := range hast.BinOps {
		for tl := hast.TNum; tl <= hast.TStr; tl++ {
			for tr := hast.TNum; tr <= hast.TStr; tr++ {
				ls, rs := operands[tl], operands[tr]
				n := 4
				if tl == hast.TNum && tr == hast.TNum {
					n = 30
				}
				for k := 0; k < n; k++ {
					add(hast.Bin(op, ls[c.R.Intn(len(ls))], rs[c.R.Intn(len(rs))]), tl)
				}
				// the decided-by-the-left case of and/or with every right operand type
				if (op == "and" || op == "or") && tl == hast.TBool {
					add(hast.Bin(op, hast.Bool(op == "or"), rs[c.R.Intn(len(rs))]), tl)
					add(hast.Bin(op, hast.Bool(op == "and"), rs[c.R.Intn(len(rs))]), tl)
				}
			}
		}
	}
	for t := hast.TNum; t <= hast.TStr; t++ {
		for _, o := range operands[t] {
			add(hast.Neg(o), t)
			add(hast.Not(o), t)
			// stacked unary operators (an even stack must not cancel out the type check)
			add(hast.Neg(hast.Neg(o)), t)
			add(hast.Not(hast.Not(o)), t)
			add(hast.Neg(hast.Not(o)), t)
			add(hast.Not(hast.Neg(hast.Neg(o))), t)
			c.Feature("stacked-unary-operators")
		}
	}
	return items
}

func usesSpecial(e *hast.Expr, name string) bool {
	if e == nil {
		return false
	}
	if e.K == hast.EVar && e.Text == name {
		return true
	}
	for _, a := range e.Args {
		if usesSpecial(a, name) {
			return true
		}
	}
	return false
}

// runItems runs the statements in as few scripts as possible: a script ends after a
// statement the model predicts to fail.
func (c02) runItems(c *core.Ctx, items []exprItem) {
	pos := 0
	for pos < len(items) && !c.Failed() {
		end := pos + 40
		if end > len(items) {
			end = len(items)
		}
		twice := c.R.Bool()
		// find the first failing statement with a model-only trial run
		mkProg := func(from, to int) *hast.Program {
			var body []*hast.Stmt
			for _, it := range items[from:to] {
				body = append(body, it.stmt)
			}
			if twice {
				// the same runner evaluates every statement a second time (same parsed tree)
				body = append(body, &hast.Stmt{K: hast.SIf, Clauses: []*hast.Clause{{
					Cond: hast.Bin("<", hast.Var("pass"), hast.Num("1")),
					Body: []*hast.Stmt{
						{K: hast.SSet, Var: "pass", Op: "+=", X: hast.Num("1")},
						// the second pass sees other values in the variables
						{K: hast.SSet, Var: "n1", Op: "+=", X: hast.Num("1.5")},
						{K: hast.SSet, Var: "n2", Op: "*=", X: hast.Num("2")},
						{K: hast.SSet, Var: "b1", Op: "=", X: hast.Not(hast.Var("b1"))},
						{K: hast.SSet, Var: "b2", Op: "=", X: hast.Not(hast.Var("b2"))},
						{K: hast.SSet, Var: "s1", Op: "+=", X: hast.Str("!")},
						{K: hast.SSet, Var: "s2", Op: "=", X: hast.Str("second")},
						{K: hast.SJump, Target: "Start"},
					},
				}}})
			}
			body = append(body, &hast.Stmt{K: hast.SLine, Parts: []hast.Part{hast.Lit("done")}})
			return &hast.Program{Readers: 1, Nodes: []*hast.Node{{Title: "Start", Body: body}}}
		}
		trial := model.New(mkProg(pos, end), &model.Host{Funcs: noLogFuncs(), Cmds: noLogCmds()}, c02Pre)
		failedAt := -1
		for {
			o := trial.Next(0)
			if o.Kind == model.OErr {
				for i := pos; i < end; i++ {
					if items[i].stmt == o.Stmt {
						failedAt = i
					}
				}
				break
			}
			if o.Kind == model.OEnd || o.Kind == model.OBudget {
				break
			}
		}
		if failedAt >= 0 {
			end = failedAt + 1
		}
		prog := mkProg(pos, end)
		scripts := hast.Render(prog, hast.L0())
		pair, err, pan := NewPair(prog, scripts, PairOpts{Pre: c02Pre, UseDefaultStore: c.R.Chance(1, 4)}, nil)
		if err != nil || pan != "" {
			c.Violate("a script of generated, syntactically valid expressions failed to load", map[string]any{"readers": scripts, "error": fmt.Sprint(err), "panic": pan})
			return
		}
		if twice {
			c.FeatureN("expressions-evaluated-twice-by-one-runner", end-pos)
		}
		for step := 0; step < 400; step++ {
			want, got, diff := pair.Step(0)
			c.Event(want.Kind.String(), 1)
			if diff != "" {
				what := "an expression does not evaluate as Yarn's operator table, precedence and short-circuit rules prescribe: "
				c.Violate(what+diff, pair.Detail(nil, want, got, diff))
				return
			}
			if want.Kind == model.OEnd || want.Kind == model.OErr || want.Kind == model.OBudget {
				break
			}
		}
		for k, v := range pair.M.Stats {
			if strings.HasPrefix(k, "cell:") || strings.HasPrefix(k, "short-circuit") {
				c.FeatureN(k, v)
			}
		}
		for i := pos; i < end; i++ {
			it := items[i]
			c.Feature("expressions")
			c.Feature("printing:" + it.kind)
			if it.stmt.ExprLay != nil {
				c.FeatureN("precedence-decides", it.stmt.ExprLay.Stats["precedence-decides"])
			}
			if it.planted {
				if i == failedAt {
					c.Feature("planted-fault-reached")
				} else {
					c.Feature("planted-fault-skipped")
				}
			}
			for _, sp := range [][2]string{{"nan", "nan"}, {"inf", "inf"}, {"ninf", "inf"}, {"nz", "-0"}} {
				if usesSpecial(it.stmt.X, sp[0]) {
					c.Feature("special-operand:" + sp[1])
				}
			}
			if it.levels >= 2 || (it.planted && i == failedAt) {
				c.Nontrivial(it.printed)
			}
			if c.WantSample() && it.levels >= 3 && it.kind == "minimal" {
				c.Sample(map[string]any{"expression": it.printed, "script": scripts[0]})
			}
		}
		if pair.M.Stats["short-circuit-skips-probe"] > 0 {
			c.Nontrivial(scripts[0])
		}
		pos = end
	}
}

func noLogFuncs() map[string]model.Fn {
	return map[string]model.Fn{
		"p": func(a []model.Val) (model.Val, bool, error) {
			if len(a) != 2 {
				return model.None, false, fmt.Errorf("p: wrong arguments")
			}
			return a[1], true, nil
		},
		"cap":   func(a []model.Val) (model.Val, bool, error) { return model.None, false, nil },
		"noret": func(a []model.Val) (model.Val, bool, error) { return model.None, false, nil },
		"pure": func(a []model.Val) (model.Val, bool, error) {
			if len(a) != 1 {
				return model.None, false, fmt.Errorf("pure: wrong arguments")
			}
			return a[0], true, nil
		},
		"hfail": func(a []model.Val) (model.Val, bool, error) { return model.None, false, fmt.Errorf("hfail") },
		// (the trial run only looks for the first failing statement; bump never fails)
		"bump": func(a []model.Val) (model.Val, bool, error) { return model.N(1), true, nil },
	}
}

func noLogCmds() map[string]func([]model.Val) error {
	m := map[string]func([]model.Val) error{}
	for _, n := range []string{"act", "emote", "play", "fx"} {
		m[n] = func([]model.Val) error { return nil }
	}
	m["cmdfail"] = func([]model.Val) error { return fmt.Errorf("cmdfail") }
	return m
}
