package props

import (
	"fmt"
	"runtime/debug"
	"sort"
	"strings"

	"github.com/remieven/ysgo/markup"
	"github.com/remieven/ysgo/verifharness/core"
	"github.com/remieven/ysgo/verifharness/gen"
	"github.com/remieven/ysgo/verifharness/model"
	"github.com/remieven/ysgo/verifharness/mon"
)

// C13 — markup parsing recovers the plain text and exactly the enclosed ranges.
type c13 struct{}

func init() { core.Register(c13{}) }

func (c13) ID() string { return "C13" }

// EvalFeatures names the counters of judged executions.
func (c13) EvalFeatures() []string { return []string{"lines", "through-a-script"} }

func (c13) Cases(tier string) int {
	if tier == "thorough" {
		return 30000
	}
	return 600
}

const c13PerCase = 100

var c13Features = []string{
	"escaped-bracket", "nested-or-overlapping-open", "overlap-close-out-of-order", "close-all", "close-all-closes-several", "repeated-name",
	"shorthand-property", "value:integer", "value:integer-leading-zeros", "value:decimal", "value:decimal-fraction-leading-zero", "value:boolean",
	"value:quoted-string", "value:quoted-with-escape", "value:bare-word", "multi-byte-inside-marker", "multi-byte-before-or-between-markers",
	"multi-byte-marker-name", "self-closing-at-line-start", "self-closing-after-whitespace", "self-closing-after-text", "swallowed-whitespace",
	"trimwhitespace=false", "character-prefix", "character-prefix-multi-byte", "replacement:select", "replacement:plural:one", "replacement:plural:other",
	"replacement:ordinal:one", "replacement:ordinal:two", "replacement:ordinal:few", "replacement:ordinal:other", "replacement:ordinal:teens",
	"replacement:nomarkup", "replacement-self-closing", "replacement-closed-by-name", "leading-whitespace", "trailing-whitespace",
	"range-clipped-by-trim", "two-ranges-intersect", "text:astral", "text:cjk", "text:blank", "replacement:select-on-boolean", "long-line", "value:decimal-random-literal", "text:backslash",
}

func (c13) Thresholds(tier string) map[string]int64 {
	th := map[string]int64{"attribute-lookups-by-name": 50000, "lines": 50000, "attributes-checked": 80000, "through-a-script": 3000, "text-for-attribute-calls": 80000, "letters-supplied-by-interpolation": 2000, "same-name-metamorphic-pairs": 2500, "marked-up-options-through-a-script": 800}
	for _, f := range c13Features {
		th["f:"+f] = 200
	}
	return th
}

func (c13) Rule() string {
	return "case = 100 lines generated with ground truth by construction: a sequence of <=12 items {text chunk (ASCII, multi-byte, CJK, astral, blanks), \\[ \\], open marker, close by name (any open one: overlaps), close-all, self-closing marker (with the documented white-space rule and trimwhitespace=false), replacement marker select/plural/ordinal/nomarkup (self-closing or closed by name, every case, % placeholder)}, markers with 0-3 properties of every value kind (12, 007, 1.05, 0.007, 2.50, true/False/TRUE, quoted incl. escapes, bare words, shorthand [a=v]), blanks inside markers, optional 'Name: ' prefix (ASCII / multi-byte), white space at either edge; the generator records for every marker the rune range it encloses in the final trimmed text. Each line is parsed directly (fresh parser value) and, for script-safe lines, shown through a dialogue (Line.Attributes), half of them with some plain letters outside the markers supplied by inline expressions (markup on interpolated text). Oracle: Text == ground truth; the attributes equal the ground truth as a multiset of (name, position, length, typed properties; decimal values exactly the double nearest to the written literal; decimal and plural values are random literals with 1-7 fraction digits half of the time; one line in forty has 60-400 items); TextForAttribute(a) == the enclosed text. Metamorphic sub-workload (5 per case): a line with two markers of the same name open at once is parsed with and without an extra unrelated [zz]...[/zz] pair; no range is predicted (the pairing rule is not fixed by the property text) but the text each of the two encloses must not depend on the unrelated pair. Non-trivial: >=2 markers of which two intersect, or a multi-byte rune before a marker, or a replacement marker. Distinct by hash of the line."
}

func (c13) Assumptions() []string {
	return []string{
		"open areas avoided by construction because the property text does not settle them: same-name markers are never nested; no escaped bracket directly before a self-closing marker; no marker directly after a white-space character an earlier marker swallowed; no ':' outside the name prefix; no marker called 'character'; no backslashes in replacement strings; integers <= 9 digits; no negative numbers; every marker is closed",
		"SourcePosition is not judged here (C14 judges its stability)",
		"a decimal plural value selects the 'other' case (only the integer 1 selects 'one')",
	}
}

func parseDirect(lp *markup.LineParser, s string) (res *markup.ParseResult, err error, pan string) {
	defer func() {
		if p := recover(); p != nil {
			pan = fmt.Sprintf("%v\n%s", p, debug.Stack())
		}
	}()
	res, err = lp.ParseMarkup(s)
	return
}

func textFor(res *markup.ParseResult, a markup.Attribute) (s string, pan string) {
	defer func() {
		if p := recover(); p != nil {
			pan = fmt.Sprintf("%v", p)
		}
	}()
	return res.TextForAttribute(a), ""
}

func valKey(v markup.Value) string {
	switch v.ValueType {
	case markup.ValueTypeInteger:
		return fmt.Sprintf("int:%d", v.IntegerValue)
	case markup.ValueTypeFloat:
		return fmt.Sprintf("float:%v", v.FloatValue)
	case markup.ValueTypeBool:
		return fmt.Sprintf("bool:%v", v.BoolValue)
	case markup.ValueTypeString:
		return fmt.Sprintf("string:%q", v.StringValue)
	}
	return "?"
}

func expKey(v gen.ExpVal) string {
	switch v.Kind {
	case "int":
		return fmt.Sprintf("int:%d", v.I)
	case "float":
		return fmt.Sprintf("float:%v", v.F)
	case "bool":
		return fmt.Sprintf("bool:%v", v.B)
	}
	return fmt.Sprintf("string:%q", v.S)
}

func propsMatch(want map[string]gen.ExpVal, got map[string]markup.Value) bool {
	if len(want) != len(got) {
		return false
	}
	for k, w := range want {
		g, ok := got[k]
		if !ok {
			return false
		}
		if w.Kind == "float" {
			// exact: the value of a decimal literal is the double nearest to it (what strconv.ParseFloat gives)
			if g.ValueType != markup.ValueTypeFloat || g.FloatValue != w.F {
				return false
			}
			continue
		}
		if expKey(w) != valKey(g) {
			return false
		}
	}
	return true
}

func describeGot(res *markup.ParseResult) []string {
	var d []string
	for _, a := range res.Attributes {
		var ps []string
		for k, v := range a.Properties {
			ps = append(ps, k+"="+valKey(v))
		}
		sort.Strings(ps)
		d = append(d, fmt.Sprintf("%s[%d,+%d]{%s}", a.Name, a.Position, a.Length, strings.Join(ps, ",")))
	}
	return d
}

func describeWant(mc gen.MarkupCase) []string {
	var d []string
	for _, a := range mc.Attrs {
		var ps []string
		for k, v := range a.Props {
			ps = append(ps, k+"="+expKey(v))
		}
		sort.Strings(ps)
		d = append(d, fmt.Sprintf("%s[%d,+%d]{%s} encloses %q", a.Name, a.Pos, a.Len, strings.Join(ps, ","), a.Enclosed))
	}
	return d
}

// checkMarkup compares a parse result with the ground truth ("" = agrees).
func checkMarkup(c *core.Ctx, mc gen.MarkupCase, res *markup.ParseResult) string {
	if res.Text != mc.Text {
		return fmt.Sprintf("Text %q, want %q", res.Text, mc.Text)
	}
	used := make([]bool, len(res.Attributes))
	for _, w := range mc.Attrs {
		found := false
		for i, g := range res.Attributes {
			if used[i] || g.Name != w.Name || g.Position != w.Pos || g.Length != w.Len || !propsMatch(w.Props, g.Properties) {
				continue
			}
			used[i] = true
			found = true
			c.Feature("attributes-checked")
			s, pan := textFor(res, g)
			c.Feature("text-for-attribute-calls")
			if pan != "" {
				return fmt.Sprintf("TextForAttribute(%s) panicked: %s", w.Name, pan)
			}
			if s != w.Enclosed {
				return fmt.Sprintf("TextForAttribute(%s) = %q, want the enclosed text %q", w.Name, s, w.Enclosed)
			}
			break
		}
		if !found {
			return fmt.Sprintf("no attribute %s at [%d,+%d] with the written properties", w.Name, w.Pos, w.Len)
		}
	}
	for i, g := range res.Attributes {
		if !used[i] {
			return fmt.Sprintf("unexpected attribute %s at [%d,+%d]", g.Name, g.Position, g.Length)
		}
	}
	// looking an attribute up by name gives one of the attributes of that name (and nothing for a name no
	// marker had): the lookup is how a game reaches the ranges
	seen := map[string]bool{}
	for _, g := range res.Attributes {
		if seen[g.Name] {
			continue
		}
		seen[g.Name] = true
		a, ok := res.Attribute(g.Name)
		c.Feature("attribute-lookups-by-name")
		match := false
		for _, h := range res.Attributes {
			if h.Name == g.Name && h.Position == a.Position && h.Length == a.Length && h.SourcePosition == a.SourcePosition && a.Name == g.Name {
				match = true
			}
		}
		if !ok || !match {
			return fmt.Sprintf("Attribute(%q) = (%+v, %v): not one of the attributes of that name", g.Name, a, ok)
		}
	}
	if a, ok := res.Attribute("no-marker-has-this-name"); ok {
		return fmt.Sprintf("Attribute(\"no-marker-has-this-name\") found %+v", a)
	}
	return ""
}

func (p c13) Run(c *core.Ctx) {
	r := c.R
	var safe []gen.MarkupCase
	for i := 0; i < c13PerCase; i++ {
		mc := gen.Markup(r)
		for _, f := range mc.Features {
			c.Feature("f:" + f)
		}
		c.Feature("lines")
		var lp markup.LineParser
		res, err, pan := parseDirect(&lp, mc.Src)
		detail := func(extra map[string]any) map[string]any {
			d := map[string]any{"line": mc.Src, "want_text": mc.Text, "want_attributes": describeWant(mc)}
			for k, v := range extra {
				d[k] = v
			}
			return d
		}
		if pan != "" {
			c.Violate("ParseMarkup panicked on a well-formed line", detail(map[string]any{"panic": pan}))
			return
		}
		if err != nil {
			c.Violate("ParseMarkup refused a well-formed line: "+err.Error(), detail(nil))
			return
		}
		if d := checkMarkup(c, mc, res); d != "" {
			c.Violate("markup parsing does not recover the text and the enclosed ranges: "+d, detail(map[string]any{"got_text": res.Text, "got_attributes": describeGot(res)}))
			return
		}
		// the result is the caller's: it writes a property of its own into every attribute; no later result
		// (of any parser value) may show it
		for _, a := range res.Attributes {
			if a.Properties != nil {
				a.Properties["written-by-the-caller"] = markup.Value{IntegerValue: i, ValueType: markup.ValueTypeInteger}
				c.Feature("attribute-maps-written-by-the-caller")
			}
		}
		nt := false
		for _, f := range mc.Features {
			if f == "two-ranges-intersect" || f == "multi-byte-before-or-between-markers" || strings.HasPrefix(f, "replacement") {
				nt = true
			}
		}
		if nt {
			c.Nontrivial(mc.Src)
		}
		if c.WantSample() && nt && len(mc.Attrs) >= 3 {
			c.Sample(map[string]any{"line": mc.Src, "text": mc.Text, "attributes": describeWant(mc)})
		}
		if mc.ScriptSafe && len(safe) < 8 {
			safe = append(safe, mc)
		}
	}
	p.sameNameMetamorphic(c)
	if c.Failed() || len(safe) == 0 {
		return
	}
	// ---- the same lines shown by a dialogue runner; in half of them some plain letters outside the
	// markers are supplied by inline expressions ({$la} holds "a"), so that markup is parsed on
	// interpolated text
	var b strings.Builder
	b.WriteString("title: Start\n---\n")
	st := mon.NewRecStorer()
	for _, mc := range safe {
		src := mc.Src
		if r.Bool() {
			src = interpolateLetters(r, src, st, c)
		}
		b.WriteString(src + "\n")
	}
	// the last two lines are also shown as the options of a group (DialogueOption.Line carries markup too)
	var asOptions []gen.MarkupCase
	if len(safe) >= 3 {
		asOptions = safe[len(safe)-2:]
		for _, mc := range asOptions {
			b.WriteString("-> " + mc.Src + "\n")
		}
	}
	b.WriteString("===\n")
	script := b.String()
	rr, err, pan := mon.Create(st, "", []string{script})
	if err != nil || pan != "" {
		c.Violate("a script of well-formed marked-up lines failed to load", map[string]any{"readers": []string{script}, "error": fmt.Sprint(err), "panic": pan})
		return
	}
	for _, mc := range safe {
		o := rr.Next(0)
		if o.Kind != mon.KLine {
			c.Violate("a well-formed marked-up line of a script was not shown: "+o.String(), map[string]any{"readers": []string{script}, "line": mc.Src})
			return
		}
		res := &markup.ParseResult{Text: o.Text, Attributes: o.Attrs}
		// the script's lexer trims nothing but the line end; trailing blanks are part of the text handed to the markup pass
		if d := checkMarkup(c, mc, res); d != "" {
			c.Violate("a marked-up line shown by a dialogue does not carry the text and the enclosed ranges: "+d,
				map[string]any{"readers": []string{script}, "line": mc.Src, "want_text": mc.Text, "want_attributes": describeWant(mc), "got_text": res.Text, "got_attributes": describeGot(res)})
			return
		}
		c.Feature("through-a-script")
	}
	if len(asOptions) > 0 {
		o := rr.Next(0)
		if o.Kind != mon.KOptions || len(o.Opts) != len(asOptions) {
			c.Violate("a group of marked-up options was not shown: "+o.String(), map[string]any{"readers": []string{script}})
			return
		}
		for i, mc := range asOptions {
			res := &markup.ParseResult{Text: o.Opts[i].Text, Attributes: o.Opts[i].Attrs}
			if d := checkMarkup(c, mc, res); d != "" {
				c.Violate("a marked-up option shown by a dialogue does not carry the text and the enclosed ranges: "+d,
					map[string]any{"readers": []string{script}, "option": mc.Src, "want_text": mc.Text, "want_attributes": describeWant(mc), "got_text": res.Text, "got_attributes": describeGot(res)})
				return
			}
			c.Feature("marked-up-options-through-a-script")
		}
	}
}

// interpolateLetters replaces some ASCII letters that stand outside markers (and are not the first
// character of the line) by {$l<letter>} and pre-loads those variables.
func interpolateLetters(r *core.Rand, src string, st *mon.RecStorer, c *core.Ctx) string {
	var b strings.Builder
	inside := false
	rs := []rune(src)
	for i, ch := range rs {
		switch {
		case ch == '[' && (i == 0 || rs[i-1] != '\\'):
			inside = true
		case ch == ']' && inside:
			inside = false
			b.WriteRune(ch)
			continue
		}
		// the raw content of an open-form nomarkup/select/... marker is outside brackets but not ordinary
		// text either; letters are only replaced when no replacement marker is on the line
		if !inside && i > 0 && (ch >= 'a' && ch <= 'z' || ch >= 'A' && ch <= 'Z') && r.Chance(1, 3) {
			name := "l" + string(ch)
			st.HostSet(name, model.S(string(ch)))
			b.WriteString("{$" + name + "}")
			c.Feature("letters-supplied-by-interpolation")
			continue
		}
		b.WriteRune(ch)
	}
	for _, m := range []string{"[nomarkup", "[select", "[plural", "[ordinal"} {
		if strings.Contains(src, m) {
			return src
		}
	}
	return b.String()
}

// sameNameMetamorphic: two markers of the SAME name open at once. Which close marker ends which of them
// is not fixed by the property text, so no range is predicted; but whatever the pairing rule is, it
// cannot depend on an unrelated marker pair: the line is parsed with and without an extra [zz]...[/zz]
// pair (which adds no text) and the text each of the two same-name markers encloses must be the same.
func (c13) sameNameMetamorphic(c *core.Ctx) {
	r := c.R
	for rep := 0; rep < 5; rep++ {
		t := func() string { return r.Pick("1", "deux", "3 ", "日", "é5", " x", "77") }
		name := r.Pick("a", "wave", "é")
		other := r.Pick("c", "q2")
		// pieces of the base line; the unrelated pair is opened before pieces[open] and closed before pieces[close]
		pieces := []string{t(), "[" + name + " k=1]", t(), "[" + other + "]", t(), "[" + name + " k=2]", t(), "[/" + name + "]", t(), "[/" + name + "]", t(), "[/" + other + "]", t()}
		if r.Bool() {
			// the other marker closes between the two same-name closes
			pieces = []string{t(), "[" + name + " k=1]", t(), "[" + other + "]", t(), "[" + name + " k=2]", t(), "[/" + name + "]", t(), "[/" + other + "]", t(), "[/" + name + "]", t()}
		}
		base := strings.Join(pieces, "")
		open := r.Intn(6)
		close := r.Range(6, len(pieces)-1)
		var v strings.Builder
		for i, pc := range pieces {
			if i == open {
				v.WriteString("[zz]")
			}
			if i == close {
				v.WriteString("[/zz]")
			}
			v.WriteString(pc)
		}
		variant := v.String()
		enclosed := func(line string) (map[int]string, string) {
			var lp markup.LineParser
			res, err, pan := parseDirect(&lp, line)
			if pan != "" {
				return nil, "panic: " + pan
			}
			if err != nil {
				return nil, "error: " + err.Error()
			}
			m := map[int]string{}
			for _, a := range res.Attributes {
				if a.Name == name {
					s, pn := textFor(res, a)
					if pn != "" {
						return nil, "TextForAttribute panicked: " + pn
					}
					m[a.Properties["k"].IntegerValue] = s
				}
			}
			return m, ""
		}
		b, berr := enclosed(base)
		w, werr := enclosed(variant)
		c.Feature("same-name-metamorphic-pairs")
		if berr != "" || werr != "" {
			c.Violate("a well-formed line with two markers of the same name open at once was not parsed: "+berr+werr, map[string]any{"line": base, "variant": variant})
			return
		}
		if len(b) != 2 || b[1] != w[1] || b[2] != w[2] {
			c.Violate("an unrelated marker pair changes the text enclosed by two markers of the same name", map[string]any{
				"line": base, "line_with_unrelated_pair": variant, "enclosed_by_k": fmt.Sprint(b), "enclosed_by_k_with_unrelated_pair": fmt.Sprint(w)})
			return
		}
	}
}
