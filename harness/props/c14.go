package props

import (
	"fmt"
	"strings"

	"github.com/remieven/ysgo/markup"
	"github.com/remieven/ysgo/verifharness/core"
	"github.com/remieven/ysgo/verifharness/gen"
	"github.com/remieven/ysgo/verifharness/model"
	"github.com/remieven/ysgo/verifharness/mon"
)

// C14 — markup parsing is a pure function of the line.
type c14 struct{}

func init() { core.Register(c14{}) }

func (c14) ID() string { return "C14" }

// EvalFeatures names the counters of judged executions.
func (c14) EvalFeatures() []string {
	return []string{"pairs", "dialogue-prefixes-compared", "interpolation-only-showings-compared", "dialogue-options-compared"}
}

func (c14) Cases(tier string) int {
	if tier == "thorough" {
		return 60000
	}
	return 1500
}

func (c14) Thresholds(tier string) map[string]int64 {
	return map[string]int64{
		"pairs":                                      25000,
		"history-length>=4":                          8000,
		"history-with-failing-line":                  8000,
		"history-with-failure-mid-marker":            1000,
		"history-with-replacement-marker":            4000,
		"probe-has-attributes":                       10000,
		"probe-is-failing-line":                      2000,
		"attributes-compared":                        30000,
		"dialogues":                                  1200,
		"dialogue-prefixes-compared":                 3000,
		"dialogue-prefix-with-error":                 300,
		"probe-repeats-a-history-line":               3000,
		"veteran-parser-comparisons":                 25000,
		"earlier-results-with-attributes-rechecked":  50000,
		"dialogue-options-compared":                  5000,
		"dialogue-lines-rechecked-after-later-lines": 5000,
		"interpolation-only-showings-compared":       4000,
	}
}

func (c14) Rule() string {
	return "case = 20 pairs (history, probe line) on one parser value each: the history is 0-8 lines drawn from the well-formed generator of C13 and from the hostile generators of C15 (so histories contain failing parses, including parses that fail after markers were already read and lines with open-form replacement markers of different names), the probe is a well-formed or a hostile line, one time in four a line of the history again (the last one, or an earlier one); every probe is also parsed on a parser value that lives through the whole case (about a hundred lines, several hundred markers); plus one dialogue in which the same marked-up probe line is reached through 3 different prefixes (different options with marked-up lines, one prefix containing a line whose markup fails). Oracle: ParseMarkup(probe) on the used parser value equals ParseMarkup(probe) on a fresh value - error/no error, Text, and every attribute incl. Position, Length, properties and SourcePosition; in the dialogue, the probe line's Text and Attributes are equal across prefixes and equal to the fresh-parser result. Results stay the caller's: every result returned for a history line (on both parser values) is deep-copied at return and compared with itself after the probe was parsed, and every line returned by the dialogue is compared with its copy after the later lines were shown; the two marked-up options of the dialogue's group each equal the fresh-parser result of their own text. A second dialogue shows a line and an option that consist of one inline expression only ({$m}) three times with different host-supplied values: each showing carries the text and attributes of the value it has then. Non-trivial: the history is non-empty and the probe has >=1 attribute. Distinct by hash of history+probe."
}

func (c14) Assumptions() []string {
	return []string{
		"two results are equal when they are deeply equal (attribute order included); error messages are not compared, only error / no error",
	}
}

func c14Line(c *core.Ctx) (string, string) {
	r := c.R
	switch r.PickW(55, 25, 20) {
	case 0:
		mc := gen.Markup(r)
		kind := "well-formed"
		for _, f := range mc.Features {
			if f == "replacement-closed-by-name" {
				kind = "well-formed-with-open-replacement"
			}
		}
		return mc.Src, kind
	case 1:
		return gen.HostileMarkup(r), "hostile"
	}
	// a line that fails after at least one marker has been read
	mc := gen.Markup(r)
	if r.Chance(1, 3) {
		// an open marker that is still open when the parse fails on a wrong close
		return r.Pick("[shake]", "[zz a=1]", "[q][w]") + mc.Src + r.Pick(" [/nothing]", "[/wave] tail", " [/q2]"), "fails-after-markers"
	}
	return mc.Src + r.Pick(" [oops", " [select value=zz/]", " [/nothing]", " [a=", " [b p=\"unterminated]"), "fails-after-markers"
}

func (p c14) Run(c *core.Ctx) {
	r := c.R
	// one parser value lives through the whole case (about 100 lines and several hundred markers): every
	// probe is also parsed on it
	var veteran markup.LineParser
	var kept []keptResult
	for i := 0; i < 20; i++ {
		var used markup.LineParser
		n := r.Range(0, 8)
		var hist []string
		failing, midFail, repl := false, false, false
		kept = kept[:0]
		for k := 0; k < n; k++ {
			l, kind := c14Line(c)
			hist = append(hist, l)
			if vres, verr, vpan := parseDirect(&veteran, l); verr == nil && vpan == "" {
				kept = append(kept, keptResult{vres, copyResult(vres), l, "a parser value that has parsed about a hundred lines"})
			}
			hres, err, pan := parseDirect(&used, l)
			if err == nil && pan == "" {
				for _, a := range hres.Attributes {
					if a.Properties != nil {
						a.Properties["written-by-the-caller"] = markup.Value{IntegerValue: k, ValueType: markup.ValueTypeInteger}
					}
				}
				kept = append(kept, keptResult{hres, copyResult(hres), l, "the parser value of this history"})
			}
			if pan != "" {
				c.Violate("ParseMarkup panicked on a history line", map[string]any{"line_quoted": fmt.Sprintf("%q", l), "panic": pan})
				return
			}
			if err != nil {
				failing = true
				if kind == "fails-after-markers" {
					midFail = true
				}
			}
			if kind == "well-formed-with-open-replacement" {
				repl = true
			}
		}
		probe, pk := c14Line(c)
		if n > 0 && r.Chance(1, 4) {
			// the very line parsed last (or an earlier one) again
			probe, pk = hist[n-1], "repeats-the-last-history-line"
			if r.Chance(1, 3) {
				// a history line again, apart from the white space around it
				base := strings.TrimSpace(hist[r.Intn(n)])
				probe, pk = r.Pick("", " ", "  ", "\t", "\u00a0 ")+base+r.Pick("", " ", "  "), "repeats-a-history-line-with-other-white-space-around-it"
				c.Feature("probe-repeats-a-history-line-with-other-white-space-around-it")
			} else if r.Chance(1, 3) {
				probe, pk = hist[r.Intn(n)], "repeats-a-history-line"
			}
			c.Feature("probe-repeats-a-history-line")
		}
		var fresh markup.LineParser
		want, werr, wpan := parseDirect(&fresh, probe)
		got, gerr, gpan := parseDirect(&used, probe)
		vgot, verr, vpan := parseDirect(&veteran, probe)
		if vpan == "" && wpan == "" && ((werr == nil) != (verr == nil) || werr == nil && !resultEqual(want, vgot)) {
			c.Violate("the result of parsing a line depends on what the parser value parsed before (a parser value that has parsed about a hundred lines)", map[string]any{
				"probe_quoted": fmt.Sprintf("%q", probe), "lines_parsed_before": i*5 + n, "fresh_error": fmt.Sprint(werr), "veteran_error": fmt.Sprint(verr)})
			return
		}
		c.Feature("veteran-parser-comparisons")
		c.Feature("pairs")
		// the caller wrote a property of its own into every attribute map of the history's results (they are
		// its values): the result of parsing the probe shows none of that
		for _, res := range []*markup.ParseResult{want, got, vgot} {
			if res == nil {
				continue
			}
			for _, a := range res.Attributes {
				if _, leaked := a.Properties["written-by-the-caller"]; leaked {
					c.Violate("the result of parsing a line carries a property the caller wrote into an EARLIER result", map[string]any{
						"probe_quoted": fmt.Sprintf("%q", probe), "attribute": a.Name})
					return
				}
			}
		}
		// results handed out earlier belong to the caller: parsing further lines must not change them
		for _, k := range kept {
			c.Feature("earlier-results-rechecked")
			if len(k.copy.Attributes) > 0 {
				c.Feature("earlier-results-with-attributes-rechecked")
			}
			if !resultEqual(k.copy, k.res) {
				c.Violate("a result returned earlier changed when the same parser value parsed further lines", map[string]any{
					"line_quoted": fmt.Sprintf("%q", k.line), "parser": k.parser, "probe_quoted": fmt.Sprintf("%q", probe),
					"as_returned": describeWithSource(k.copy), "now": describeWithSource(k.res), "text_as_returned": k.copy.Text, "text_now": k.res.Text})
				return
			}
		}
		if n >= 4 {
			c.Feature("history-length>=4")
		}
		if failing {
			c.Feature("history-with-failing-line")
		}
		if midFail {
			c.Feature("history-with-failure-mid-marker")
		}
		if repl {
			c.Feature("history-with-replacement-marker")
		}
		detail := func(extra map[string]any) map[string]any {
			q := make([]string, len(hist))
			for i, h := range hist {
				q[i] = fmt.Sprintf("%q", h)
			}
			d := map[string]any{"history_quoted": q, "probe_quoted": fmt.Sprintf("%q", probe), "probe_kind": pk}
			for k, v := range extra {
				d[k] = v
			}
			return d
		}
		if wpan != "" || gpan != "" {
			c.Violate("ParseMarkup panicked on the probe line", detail(map[string]any{"panic_fresh": wpan, "panic_used": gpan}))
			return
		}
		if (werr == nil) != (gerr == nil) {
			c.Violate("the same line parses on a fresh parser value and fails on a used one (or vice versa)", detail(map[string]any{"fresh_error": fmt.Sprint(werr), "used_error": fmt.Sprint(gerr)}))
			return
		}
		if werr != nil {
			c.Feature("probe-is-failing-line")
			continue
		}
		c.FeatureN("attributes-compared", len(want.Attributes))
		if !resultEqual(want, got) {
			c.Violate("the result of parsing a line depends on what the parser value parsed before", detail(map[string]any{
				"fresh_text": want.Text, "used_text": got.Text, "fresh_attributes": describeWithSource(want), "used_attributes": describeWithSource(got)}))
			return
		}
		if len(want.Attributes) > 0 {
			c.Feature("probe-has-attributes")
			if n > 0 {
				c.Nontrivial(strings.Join(hist, "\x00"), probe)
			}
		}
		if c.WantSample() && n >= 3 && failing && len(want.Attributes) > 1 {
			c.Sample(detail(map[string]any{"attributes": describeWithSource(want)}))
		}
	}
	p.dialogue(c)
}

type keptResult struct {
	res, copy *markup.ParseResult
	line      string
	parser    string
}

func describeWithSource(res *markup.ParseResult) []string {
	d := describeGot(res)
	for i, a := range res.Attributes {
		d[i] += fmt.Sprintf(" src=%d", a.SourcePosition)
	}
	return d
}

// dialogue: the same line shown after different prefixes of one dialogue.
func (c14) dialogue(c *core.Ctx) {
	r := c.R
	safe := func() gen.MarkupCase {
		for {
			mc := gen.Markup(r)
			if mc.ScriptSafe && len(mc.Attrs) > 0 {
				return mc
			}
		}
	}
	probe := safe()
	a1, b1, b2, optA := safe(), safe(), safe(), safe()
	optB := safe()
	script := "title: Start\n---\n-> " + optA.Src + "\n    " + a1.Src + "\n-> " + optB.Src + "\n    " + b1.Src + "\n    " + b2.Src + "\n-> failing prefix\n    before [b]x[/b] [oops\n-> empty\n" + probe.Src + "\n===\n"
	var fresh markup.LineParser
	want, werr, _ := parseDirect(&fresh, probe.Src)
	if werr != nil {
		return
	}
	for choice := 0; choice < 4; choice++ {
		rr, err, pan := mon.Create(nil, "", []string{script})
		if err != nil || pan != "" {
			c.Violate("a dialogue of well-formed marked-up lines failed to load", map[string]any{"readers": []string{script}, "error": fmt.Sprint(err), "panic": pan})
			return
		}
		var trace []string
		o := rr.Next(0)
		trace = append(trace, o.String())
		if o.Kind != mon.KOptions {
			c.Violate("the option group of the dialogue was not shown: "+o.String(), map[string]any{"readers": []string{script}})
			return
		}
		// every option of the group carries the attributes of its own text
		for k, src := range []string{optA.Src, optB.Src} {
			var f markup.LineParser
			ow, oerr, _ := parseDirect(&f, src)
			if oerr != nil || k >= len(o.Opts) {
				continue
			}
			og := &markup.ParseResult{Text: o.Opts[k].Text, Attributes: o.Opts[k].Attrs}
			c.Feature("dialogue-options-compared")
			if !resultEqual(ow, og) {
				c.Violate("the attributes of an option shown by a dialogue depend on the other options of its group", map[string]any{
					"readers": []string{script}, "option": k, "fresh_attributes": describeWithSource(ow), "dialogue_attributes": describeWithSource(og)})
				return
			}
		}
		var shown []keptResult
		var last mon.Obs
		sawErr := false
		for step := 0; step < 8; step++ {
			arg := 0
			if step == 0 {
				arg = choice
			}
			o = rr.Next(arg)
			trace = append(trace, o.String())
			if o.Kind == mon.KErr {
				sawErr = true
				continue
			}
			if o.Kind != mon.KLine {
				break
			}
			last = o
			res := &markup.ParseResult{Text: o.Text, Attributes: o.Attrs}
			shown = append(shown, keptResult{res, copyResult(res), o.Text, "the dialogue runner"})
		}
		for _, k := range shown {
			c.Feature("dialogue-lines-rechecked-after-later-lines")
			if !resultEqual(k.copy, k.res) {
				c.Violate("a line returned by the dialogue changed when later lines were shown", map[string]any{
					"readers": []string{script}, "trace": trace, "as_returned": describeWithSource(k.copy), "now": describeWithSource(k.res)})
				return
			}
		}
		if sawErr {
			c.Feature("dialogue-prefix-with-error")
		}
		if last.Kind != mon.KLine || last.Text != want.Text {
			c.Violate(fmt.Sprintf("after prefix %d the probe line was not the last line shown (got %s)", choice, last), map[string]any{"readers": []string{script}, "trace": trace})
			return
		}
		got := &markup.ParseResult{Text: last.Text, Attributes: last.Attrs}
		c.Feature("dialogue-prefixes-compared")
		if !resultEqual(want, got) {
			c.Violate("the attributes of a line shown by a dialogue depend on the lines shown before it", map[string]any{
				"readers": []string{script}, "prefix_choice": choice, "trace": trace, "fresh_attributes": describeWithSource(want), "dialogue_attributes": describeWithSource(got)})
			return
		}
	}
	c.Feature("dialogues")

	// a line that consists of one inline expression only, shown several times with different values:
	// what is parsed is the text of THIS showing
	vals := []string{safe().Src, gen.Markup(r).Src, safe().Src}
	if r.Chance(1, 4) {
		vals[1] = vals[0]
	}
	loop := "title: Start\n---\n<<jump Show>>\n===\ntitle: Show\n---\n{$m}\n-> {$m}\n    <<set $k to $k + 1>>\n<<if $k == 1>>\n<<set $m to $m1>>\n<<jump Show>>\n<<elseif $k == 2>>\n<<set $m to $m2>>\n<<jump Show>>\n<<endif>>\n===\n"
	st := mon.NewRecStorer()
	st.HostSet("m", model.S(vals[0]))
	st.HostSet("m1", model.S(vals[1]))
	st.HostSet("m2", model.S(vals[2]))
	st.HostSet("k", model.N(0))
	rr, err, pan := mon.Create(st, "", []string{loop})
	if err != nil || pan != "" {
		c.Violate("the interpolation-only dialogue failed to load", map[string]any{"readers": []string{loop}, "error": fmt.Sprint(err), "panic": pan})
		return
	}
	var trace []string
	for round := 0; round < 3; round++ {
		var f markup.LineParser
		want, werr, _ := parseDirect(&f, vals[round])
		for _, what := range []string{"line", "option"} {
			o := rr.Next(0)
			trace = append(trace, o.String())
			if o.Kind == mon.KPanic {
				c.Violate("Next panicked in the interpolation-only dialogue", map[string]any{"readers": []string{loop}, "values": vals, "trace": trace})
				return
			}
			if werr != nil {
				if o.Kind != mon.KErr {
					c.Violate("a line whose text fails to parse was shown by the dialogue: "+o.String(), map[string]any{"readers": []string{loop}, "values": vals, "trace": trace})
					return
				}
				if what == "option" {
					// the failed option group was skipped or not: either way go on with the next round by hand
					st.HostSet("k", model.N(float64(round+1)))
				}
				continue
			}
			var got *markup.ParseResult
			switch {
			case what == "line" && o.Kind == mon.KLine:
				got = &markup.ParseResult{Text: o.Text, Attributes: o.Attrs}
			case what == "option" && o.Kind == mon.KOptions && len(o.Opts) == 1:
				got = &markup.ParseResult{Text: o.Opts[0].Text, Attributes: o.Opts[0].Attrs}
			default:
				c.Violate(fmt.Sprintf("round %d of the interpolation-only dialogue: want the %s, got %s", round, what, o), map[string]any{"readers": []string{loop}, "values": vals, "trace": trace})
				return
			}
			c.Feature("interpolation-only-showings-compared")
			if !resultEqual(want, got) {
				c.Violate("a line made of one inline expression does not carry the text and attributes of the value it has at this showing", map[string]any{
					"readers": []string{loop}, "values": vals, "round": round, "element": what, "trace": trace, "fresh_text": want.Text, "dialogue_text": got.Text,
					"fresh_attributes": describeWithSource(want), "dialogue_attributes": describeWithSource(got)})
				return
			}
		}
		if werr != nil {
			break
		}
	}
}
