package props

import (
	"fmt"
	"github.com/remieven/ysgo/markup"
	"github.com/remieven/ysgo/variable"
	"strings"

	"github.com/remieven/ysgo/verifharness/core"
	"github.com/remieven/ysgo/verifharness/gen"
	"github.com/remieven/ysgo/verifharness/hast"
	"github.com/remieven/ysgo/verifharness/model"
	"github.com/remieven/ysgo/verifharness/mon"
)

// C06 — running a valid script never panics: script-level faults surface as errors.
type c06 struct{}

func init() { core.Register(c06{}) }

func (c06) ID() string { return "C06" }

// EvalFeatures names the counters of judged executions.
func (c06) EvalFeatures() []string { return []string{"faults-reached", "faults-not-reached"} }

func (c06) Cases(tier string) int {
	if tier == "thorough" {
		return 200000
	}
	return 5000
}

// an expression-level fault class builds a faulty expression
type exprFault struct {
	name string
	mk   func(r *core.Rand) *hast.Expr
}

func n(s string) *hast.Expr { return hast.Num(s) }

func pick2[T any](r *core.Rand, a, b T) T {
	if r.Bool() {
		return a
	}
	return b
}

var exprFaults = []exprFault{
	{"ill-typed-operator", func(r *core.Rand) *hast.Expr {
		op := hast.BinOps[r.Intn(len(hast.BinOps))]
		switch op {
		case "and", "or", "xor":
			return hast.Bin(op, hast.Bool(op == "and"), n("1"))
		case "==", "!=":
			return hast.Bin(op, n("1"), hast.Str("1"))
		case "+":
			return hast.Bin(op, hast.Str("a"), n("1"))
		}
		return hast.Bin(op, pick2(r, hast.Str("a"), hast.Bool(true)), n("2"))
	}},
	{"ill-typed-unary", func(r *core.Rand) *hast.Expr {
		if r.Bool() {
			return hast.Neg(pick2(r, hast.Str("a"), hast.Bool(true)))
		}
		return hast.Not(pick2(r, hast.Str("a"), n("0")))
	}},
	{"unknown-variable", func(r *core.Rand) *hast.Expr { return hast.Var(r.Pick("nope", "undeclared", "ïnconnu")) }},
	{"unknown-function", func(r *core.Rand) *hast.Expr { return hast.Call(r.Pick("nofn", "Floor", "dice2"), n("1")) }},
	{"builtin-wrong-arg-count", func(r *core.Rand) *hast.Expr {
		f := r.Pick("floor", "ceil", "round", "inc", "dec", "decimal", "integer", "string", "number", "bool", "visited", "visited_count", "dice", "random_range", "round_places", "random")
		switch r.Intn(3) {
		case 0:
			if f == "random" {
				return hast.Call(f, n("1"))
			}
			return hast.Call(f)
		case 1:
			return hast.Call(f, n("1"), n("2"), n("3"))
		}
		if f == "random_range" || f == "round_places" {
			return hast.Call(f, n("1"))
		}
		return hast.Call(f, n("1"), n("2"))
	}},
	{"builtin-wrong-arg-type", func(r *core.Rand) *hast.Expr {
		switch r.Intn(5) {
		case 0:
			return hast.Call(r.Pick("floor", "ceil", "round", "inc", "dec", "decimal", "integer", "dice"), pick2(r, hast.Str("1"), hast.Bool(true)))
		case 1:
			return hast.Call(r.Pick("visited", "visited_count"), pick2(r, n("1"), hast.Bool(true)))
		case 2:
			return hast.Call("random_range", n("1"), hast.Str("6"))
		case 3:
			return hast.Call("round_places", hast.Str("1.5"), n("1"))
		}
		return hast.Call("round_places", n("1.5"), hast.Bool(true))
	}},
	{"conversion-of-non-number-or-boolean", func(r *core.Rand) *hast.Expr {
		if r.Bool() {
			return hast.Call("number", hast.Str(r.Pick("abc", "", "12abc", "é")))
		}
		return hast.Call("bool", hast.Str(r.Pick("maybe", "", "yes", "2")))
	}},
	{"random-out-of-domain", func(r *core.Rand) *hast.Expr {
		inf := hast.Bin("/", n("1"), n("0"))
		nan := hast.Bin("/", n("0"), n("0"))
		huge := hast.Bin("*", n("1000000000000000"), n("1000000000000000"))
		switch r.Intn(10) {
		case 0:
			return hast.Call("dice", n("0"))
		case 1:
			return hast.Call("dice", hast.Neg(n(r.Pick("1", "6", "1000"))))
		case 2:
			return hast.Call("dice", pick2(r, inf, hast.Neg(inf)))
		case 3:
			return hast.Call("dice", nan)
		case 4:
			return hast.Call("dice", pick2(r, huge, hast.Neg(huge)))
		case 5:
			return hast.Call("random_range", n("5"), n("1"))
		case 6:
			return hast.Call("random_range", pick2(r, nan, inf), n("3"))
		case 7:
			return hast.Call("random_range", n("1"), pick2(r, nan, huge))
		case 8:
			// both bounds are valid integers but the span does not fit
			return hast.Call("random_range", hast.Neg(n(r.Pick("4611686018427387904", "9223372036854775807", "9000000000000000000"))), n(r.Pick("4611686018427387904", "9223372036854775807", "9000000000000000000")))
		}
		if r.Bool() {
			// reversed AND more than 2^63 apart (the difference wraps around to a positive span)
			return hast.Call("random_range", n(r.Pick("6000000000000000000", "9223372036854775807", "4611686018427387905")), hast.Neg(n(r.Pick("6000000000000000000", "9223372036854775807", "4611686018427387905"))))
		}
		return hast.Call("random_range", hast.Neg(n("9223372036854775808")), n(r.Pick("0", "1", "100")))
	}},
	{"null-literal", func(r *core.Rand) *hast.Expr {
		switch r.Intn(4) {
		case 0:
			return hast.Bin("+", hast.Null(), n("1"))
		case 1:
			return hast.Call("p", n("1"), hast.Null())
		case 2:
			return hast.Bin("==", hast.Null(), hast.Null())
		}
		return hast.Null()
	}},
	{"value-less-function-as-value", func(r *core.Rand) *hast.Expr {
		switch r.Intn(4) {
		case 0:
			return hast.Bin("+", hast.Call("noret", n("1")), n("1"))
		case 1:
			return hast.Call("p", n("1"), hast.Call("noret", n("2")))
		case 2:
			return hast.Not(hast.Call("noret", n("3")))
		}
		return hast.Call("noret", n("4"))
	}},
	{"host-function-error", func(r *core.Rand) *hast.Expr { return hast.Call("hfail", n("1")) }},
	{"host-function-wrong-arg-count", func(r *core.Rand) *hast.Expr { return hast.Call("p", n("1")) }},
}

var exprPositions = []string{"line-inline", "option-text", "option-condition", "if-condition", "elseif-condition", "set-rhs", "declare-value", "call-argument", "command-argument", "jump-expression", "operand", "function-argument"}

// statement-level fault classes
var stmtFaults = []string{"unknown-node-by-name", "unknown-node-by-expression", "non-string-jump-target", "unknown-command", "command-error", "non-boolean-if-condition", "non-boolean-option-condition", "markup-error-in-line", "unknown-function-call-statement", "wait-misuse", "compound-assign-unknown-variable", "assignment-changes-type", "async-command-error", "host-function-error-of-concrete-type", "store-wiped-while-assigning", "command-of-white-space-only"}

func (c06) Thresholds(tier string) map[string]int64 {
	th := map[string]int64{
		"faults-reached": 1800,
		"host-configuration:zero-value-default-store":             600,
		"host-configuration:nil-function-and-command-registered":  600,
		"host-configuration:marked-up-lines-of-every-marker-form": 600,
		"host-configuration:broken-markup-reached-three-times":    600,
		"built-ins-called-with-unusual-numbers":                   6000,
		"faults-not-reached":                                      100,
		"post-error-next-calls":                                   60000,
		"long-non-yielding-run":                                   1,
		"recording-store":                                         1000,
		"default-store":                                           1000,
		"post-error:line":                                         500,
		"post-error:end":                                          500,
		"post-error:error":                                        5,
		"restored-from-own-initial-snapshot":                      800,
	}
	for _, f := range exprFaults {
		th["reached:"+f.name] = 15
	}
	for _, f := range stmtFaults {
		th["reached:"+f] = 15
	}
	for _, p := range exprPositions {
		th["reached-at:"+p] = 15
	}
	return th
}

func (c06) Rule() string {
	return "case 0 = one fault-free run of 60 000 loop iterations (about 2*10^5 non-yielding statements inside one Next). Every other case = one generated valid program with exactly one planted fault: an expression-level fault class {" + faultNames() + "} placed in a position class {" + strings.Join(exprPositions, ", ") + "}, or a statement-level fault {" + strings.Join(stmtFaults, ", ") + "}; inserted at a PRNG position of a PRNG body (top level or nested, reachable or not). The program is driven along a PRNG in-range choice path on the default or the recording store. Oracle: the trace equals the model's up to the fault; the Next that reaches the fault returns an error (not a value, not a panic, not a process death); then 30 more Next calls are made (argument 0 when the previous element was an option group, PRNG garbage otherwise) and each must return an element, the end or an error. Non-trivial: the planted fault is reached. Distinct by hash of script+choices."
}

func faultNames() string {
	var s []string
	for _, f := range exprFaults {
		s = append(s, f.name)
	}
	return strings.Join(s, ", ")
}

func (c06) Assumptions() []string {
	return []string{
		"dice/random_range with in-domain fractional arguments (dice(2.5)) are not generated here: the property does not say whether they are truncated or refused (C09 judges their range)",
		"what the runner returns after an error is not predicted, only that it returns an element, the end or an error without panicking",
		"non-yielding infinite loops are outside the property (no Next can return); the long fault-free run stays at 2*10^5 statements",
		"a process-fatal failure (panic in a goroutine, stack overflow) is attributed to the case whose progress marker was on disk and confirmed by re-running that case alone",
	}
}

func bodiesOf(p *hast.Program) []*[]*hast.Stmt {
	var out []*[]*hast.Stmt
	var walk func(b *[]*hast.Stmt)
	walk = func(b *[]*hast.Stmt) {
		out = append(out, b)
		for _, s := range *b {
			for _, o := range s.Options {
				walk(&o.Body)
			}
			for _, c := range s.Clauses {
				walk(&c.Body)
			}
		}
	}
	for _, n := range p.Nodes {
		walk(&n.Body)
	}
	return out
}

// hostConfigurations: two host configurations the generated programs do not produce. (a) The default store used
// as its zero value (variable.InMemoryStorer{} instead of NewInMemoryStorer()): assignments of every type and
// reads must work. (b) A host that registered nothing usable under a name - AddFunction(name, nil),
// AddCommand(name, nil): a script that uses the name gets an error, like for any unknown function or command,
// and the runner stays usable.
func (p c06) hostConfigurations(c *core.Ctx) {
	r := c.R
	n := r.Range(1, 99)
	script := fmt.Sprintf("title: Start\n---\n<<set $n to %d>>\n<<declare $b = true>>\n<<set $s to \"w\">>\n<<set $n += 1>>\nshow {$n} {$b} {$s}\n<<jump Two>>\n===\ntitle: Two\n---\n<<set $s += \"x\">>\nthen {$s} {$n}\n===\n", n)
	zero := &variable.InMemoryStorer{}
	rr, err, pan := mon.Create(zero, "", []string{script})
	if err != nil || pan != "" {
		c.Violate("creating a runner over a zero-value InMemoryStorer failed", map[string]any{"readers": []string{script}, "error": fmt.Sprint(err), "panic": pan})
		return
	}
	want := []string{fmt.Sprintf("show %d True w", n+1), fmt.Sprintf("then wx %d", n+1)}
	for i, w := range want {
		o := rr.Next(0)
		if o.Kind != mon.KLine || o.Text != w {
			what := "a dialogue over the zero value of the default store does not run"
			if o.Kind == mon.KPanic {
				what = "Next panicked on a host configuration: the default store used as its zero value"
			}
			c.Violate(what, map[string]any{"readers": []string{script}, "step": i, "expected": w, "observed": o.String()})
			return
		}
	}
	if o := rr.Next(0); o.Kind != mon.KEnd {
		c.Violate("a dialogue over the zero value of the default store does not end where it should", map[string]any{"readers": []string{script}, "observed": o.String()})
		return
	}
	c.Feature("host-configuration:zero-value-default-store")

	for _, use := range []string{r.Pick("{nf()}", "<<set $x to nf(1)>>", "<<call nf()>>", "<<if nf()>>\nx\n<<endif>>", "-> o <<if nf()>>\n"), "<<nc 1 two>>"} {
		script = "title: Start\n---\nfirst\n" + use + "\nsecond\n===\n"
		rr, err, pan = mon.Create(nil, "", []string{script})
		if err != nil || pan != "" {
			c.Violate("a script that calls host names failed to load", map[string]any{"readers": []string{script}, "error": fmt.Sprint(err), "panic": pan})
			return
		}
		var trace []string
		regPanic := func() (p string) {
			defer func() {
				if x := recover(); x != nil {
					p = fmt.Sprint(x)
				}
			}()
			rr.DR.AddFunction("nf", nil)
			rr.DR.AddCommand("nc", nil)
			return ""
		}()
		if regPanic != "" {
			c.Violate("AddFunction / AddCommand panicked on a nil value", map[string]any{"panic": regPanic})
			return
		}
		errs := 0
		for i := 0; i < 8; i++ {
			o := rr.Next(0)
			trace = append(trace, o.String())
			if o.Kind == mon.KPanic {
				c.Violate("Next panicked on a host configuration: a nil function / command registered under the name the script uses", map[string]any{"readers": []string{script}, "trace": trace})
				return
			}
			if o.Kind == mon.KErr {
				errs++
			}
			if o.Kind == mon.KEnd {
				break
			}
		}
		if errs < 1 {
			c.Violate("using a name under which the host registered a nil function / command did not surface as an error", map[string]any{"readers": []string{script}, "trace": trace})
			return
		}
	}
	c.Feature("host-configuration:nil-function-and-command-registered")

	// ---- marked-up lines of every marker form (replacement markers written as open / close pairs too), literal
	// and produced by an inline expression: the element's text is what the markup parser gives for that text on
	// a parser value of its own; never a panic
	forms := []string{
		"[select value=a a=\"x\" b=\"y\"]fallback[/select] end", "[plural value=2 one=\"% cat\" other=\"% cats\"]n[/plural] end",
		"[ordinal value=3 one=\"%st\" two=\"%nd\" few=\"%rd\" other=\"%th\"]x[/ordinal] end", "[nomarkup][b]raw[/b][/nomarkup] end",
		"[select value=b a=\"x\" b=\"y\" /] end", "[b]bold [i]both[/b] it[/i] end", "Mae: [wave]hi[/wave][/] end", "[Select value=a a=\"x\"]f[/Select] end",
	}
	form := forms[r.Intn(len(forms))]
	script = "title: Start\n---\nA " + form + "\nB {$m}\n-> C " + form + "\n-> D {$m}\n===\n"
	st := mon.NewRecStorer()
	st.HostSet("m", model.S(form))
	rr, err, pan = mon.Create(st, "", []string{script})
	if err != nil || pan != "" {
		c.Violate("a script with marked-up lines failed to load", map[string]any{"readers": []string{script}, "error": fmt.Sprint(err), "panic": pan})
		return
	}
	lp := &markup.LineParser{}
	expect := func(text string) (txt string, ok bool) {
		defer func() {
			if recover() != nil {
				txt, ok = "", false // C15 judges the markup parser on its own; here it only serves as the expectation
			}
		}()
		res, err := lp.ParseMarkup(text)
		if err != nil || res == nil {
			return "", false
		}
		return res.Text, true
	}
	for i, raw := range []string{"A " + form, "B " + form} {
		o := rr.Next(0)
		want, ok := expect(raw)
		switch {
		case o.Kind == mon.KPanic:
			c.Violate("Next panicked on a marked-up line of a valid script", map[string]any{"readers": []string{script}, "step": i, "observed": o.String()})
			return
		case ok && (o.Kind != mon.KLine || o.Text != want), !ok && o.Kind != mon.KErr:
			c.Violate("a marked-up line of a valid script is not what the markup parser gives for its text", map[string]any{"readers": []string{script}, "step": i, "markup_parser_text": want, "markup_parser_ok": ok, "observed": o.String()})
			return
		}
	}
	if o := rr.Next(0); o.Kind == mon.KPanic {
		c.Violate("Next panicked on marked-up options of a valid script", map[string]any{"readers": []string{script}, "observed": o.String()})
		return
	} else if wc, okc := expect("C " + form); okc && (o.Kind != mon.KOptions || len(o.Opts) != 2 || o.Opts[0].Text != wc || o.Opts[1].Text != "D"+wc[1:]) {
		c.Violate("marked-up options of a valid script are not what the markup parser gives for their texts", map[string]any{"readers": []string{script}, "markup_parser_text": wc, "observed": o.String()})
		return
	}
	c.Feature("host-configuration:marked-up-lines-of-every-marker-form")

	// ---- the built-ins with numbers nobody passes on purpose: any result or an error, never a panic
	{
		hostile := []string{"-1", "-2", "-400", "400", "18", "1000000", "0.5", "-0.5", "1 / 0", "-1 / 0", "0 / 0", "1000000 * 1000000 * 1000000 * 1000000", "-0", "9007199254740993", "4294967296", "-2147483649", "1" + strings.Repeat("0", 320)}
		h := func() string { return hostile[r.Intn(len(hostile))] }
		x := func() string {
			return r.Pick("1234.5", "-0.5", "2.5", "0", "1e0"[:1]+"23456789.987654321", "1 / 0", "0 / 0", "-7")
		}
		for i := 0; i < 10; i++ {
			var e string
			switch r.Intn(9) {
			case 0, 1:
				e = "round_places(" + x() + ", " + h() + ")"
			case 2:
				e = r.Pick("round", "floor", "ceil", "inc", "dec", "decimal", "integer", "int", "number", "string", "bool") + "(" + h() + ")"
			case 3:
				e = "dice(" + h() + ")"
			case 4:
				e = "random_range(" + h() + ", " + h() + ")"
			case 5:
				e = "round_places(" + h() + ", " + r.Pick("0", "1", "8", "17", "18", "19", "308", "309") + ")"
			case 6:
				e = "string(round_places(" + x() + ", " + h() + ")) + \"x\""
			case 7:
				e = "visited_count(string(" + h() + "))"
			default:
				e = x() + " % (" + h() + ")"
			}
			script = "title: Start\n---\nv {" + e + "}\nafter\n===\n"
			rr, err, pan = mon.Create(nil, "s", []string{script})
			if err != nil || pan != "" {
				c.Violate("a script that calls a built-in failed to load", map[string]any{"readers": []string{script}, "error": fmt.Sprint(err), "panic": pan})
				return
			}
			for k := 0; k < 3; k++ {
				if o := rr.Next(0); o.Kind == mon.KPanic {
					c.Violate("Next panicked on a built-in called with an unusual number", map[string]any{"readers": []string{script}, "expression": e, "observed": o.String()})
					return
				}
			}
			c.Feature("built-ins-called-with-unusual-numbers")
		}
	}

	// ---- a line whose markup is broken is an error EVERY time it is reached (the host restores the node entry in
	// between, which says where the dialogue resumes - an error does not)
	broken := r.Pick("oops [b", "x [/b] y", "[select value=z a=\"1\"/] s", "[plural value=many one=\"a\"/]", "[a]x[/b]", "-> opt [wave")
	script = "title: Start\n---\n" + broken + "\nafter\n===\n"
	if strings.HasPrefix(broken, "->") {
		script = "title: Start\n---\n" + broken + "\n    body\nafter\n===\n"
	}
	rr, err, pan = mon.Create(nil, "", []string{script})
	if err != nil || pan != "" {
		c.Violate("a script with a line of broken markup failed to load", map[string]any{"readers": []string{script}, "error": fmt.Sprint(err), "panic": pan})
		return
	}
	for visit := 1; visit <= 3; visit++ {
		o := rr.Next(0)
		if o.Kind != mon.KErr {
			what := "a line whose markup is broken did not surface as an error"
			if o.Kind == mon.KPanic {
				what = "Next panicked on a line whose markup is broken"
			}
			c.Violate(fmt.Sprintf("%s (visit %d of the same line by the same runner)", what, visit), map[string]any{"readers": []string{script}, "observed": o.String()})
			return
		}
		if err := rr.RestoreAt(rr.DR.Snapshot()); err != nil {
			c.Violate("restoring a runner from its own snapshot failed: "+err.Error(), map[string]any{"readers": []string{script}})
			return
		}
	}
	c.Feature("host-configuration:broken-markup-reached-three-times")
}

func (p c06) Run(c *core.Ctx) {
	r := c.R
	if c.Idx == 0 {
		p.longRun(c)
		return
	}
	if c.Idx%4 == 1 {
		p.hostConfigurations(c)
		if c.Failed() {
			return
		}
	}
	cfg := gen.DefaultFlow()
	cfg.MaxStmts = 30
	cfg.WStop = 1
	prog := gen.Flow(r, cfg)
	id := 500000
	next := func() int { id++; return id }
	var st *hast.Stmt
	class, pos := "", ""
	if r.Chance(2, 3) {
		f := exprFaults[r.Intn(len(exprFaults))]
		class = f.name
		e := f.mk(r)
		pos = exprPositions[r.Intn(len(exprPositions))]
		if class == "null-literal" && e.K != hast.ENull && pos == "declare-value" || pos == "declare-value" && e.K != hast.ENull && e.K != hast.ECall && e.K != hast.EVar {
			pos = "set-rhs" // declare takes a value, not an expression
		}
		lit := func(s string) []hast.Part { return []hast.Part{hast.Lit(fmt.Sprintf("%s%d ", s, next())), hast.Inl(e)} }
		switch pos {
		case "line-inline":
			st = &hast.Stmt{K: hast.SLine, Parts: lit("F")}
		case "option-text":
			st = &hast.Stmt{K: hast.SOptions, Options: []*hast.Option{{Parts: []hast.Part{hast.Lit("ok")}}, {Parts: lit("FO")}}}
		case "option-condition":
			st = &hast.Stmt{K: hast.SOptions, Options: []*hast.Option{{Parts: []hast.Part{hast.Lit("ok")}}, {Parts: []hast.Part{hast.Lit("cond")}, Cond: e}}}
		case "if-condition":
			st = &hast.Stmt{K: hast.SIf, Clauses: []*hast.Clause{{Cond: e, Body: []*hast.Stmt{{K: hast.SLine, Parts: []hast.Part{hast.Lit("unreachable")}}}}}}
		case "elseif-condition":
			st = &hast.Stmt{K: hast.SIf, Clauses: []*hast.Clause{{Cond: hast.Bool(false)}, {Cond: e}, {Body: []*hast.Stmt{{K: hast.SLine, Parts: []hast.Part{hast.Lit("unreachable")}}}}}}
		case "set-rhs":
			st = &hast.Stmt{K: hast.SSet, Var: r.Pick("n1", "fresh"), Op: r.Pick("=", "="), X: e}
		case "declare-value":
			st = &hast.Stmt{K: hast.SDeclare, Var: "declared", X: e}
		case "call-argument":
			st = &hast.Stmt{K: hast.SCall, X: hast.Call("cap", n("1"), e)}
		case "command-argument":
			st = &hast.Stmt{K: hast.SCommand, Name: "act", Args: []hast.CmdArg{{Word: "x"}, {X: e}}}
		case "jump-expression":
			st = &hast.Stmt{K: hast.SJump, X: e}
		case "operand":
			st = &hast.Stmt{K: hast.SLine, Parts: []hast.Part{hast.Lit("F "), hast.Inl(hast.Bin(r.Pick("+", "==", "and", "<"), e, e))}}
		default:
			st = &hast.Stmt{K: hast.SLine, Parts: []hast.Part{hast.Lit("F "), hast.Inl(hast.Call("pure", e))}}
		}
	} else {
		class = stmtFaults[r.Intn(len(stmtFaults))]
		pos = "statement"
		switch class {
		case "unknown-node-by-name":
			st = &hast.Stmt{K: hast.SJump, Target: r.Pick("Nowhere", "start", "Ünknown")}
		case "unknown-node-by-expression":
			st = &hast.Stmt{K: hast.SJump, X: hast.Bin("+", hast.Str("No"), hast.Str("where"))}
		case "non-string-jump-target":
			st = &hast.Stmt{K: hast.SJump, X: pick2(r, n("1"), hast.Bool(true))}
		case "unknown-command":
			st = &hast.Stmt{K: hast.SCommand, Name: r.Pick("nocmd", "Act", "waitt"), Args: []hast.CmdArg{{Word: "a"}}}
		case "command-error":
			st = &hast.Stmt{K: hast.SCommand, Name: "cmdfail"}
		case "non-boolean-if-condition":
			st = &hast.Stmt{K: hast.SIf, Clauses: []*hast.Clause{{Cond: pick2(r, n("1"), hast.Str("true"))}}}
		case "non-boolean-option-condition":
			st = &hast.Stmt{K: hast.SOptions, Options: []*hast.Option{{Parts: []hast.Part{hast.Lit("o")}, Cond: pick2(r, n("0"), hast.Str("false"))}}}
		case "markup-error-in-line":
			bad := r.Pick("[unclosed", "x [/nope] y", "[a=] z", "[b]bold[/c]", "[select value=1 2=\"two\"/]", "[plural value=x one=\"a\"/]")
			st = &hast.Stmt{K: hast.SLine, Parts: []hast.Part{hast.Lit(bad)}, MarkupFault: true}
		case "unknown-function-call-statement":
			st = &hast.Stmt{K: hast.SCall, X: hast.Call("nofn", n("1"))}
		case "wait-misuse":
			switch r.Intn(3) {
			case 0:
				st = &hast.Stmt{K: hast.SCommand, Name: "wait"}
			case 1:
				st = &hast.Stmt{K: hast.SCommand, Name: "wait", Args: []hast.CmdArg{{Word: "soon"}}}
			default:
				st = &hast.Stmt{K: hast.SCommand, Name: "wait", Args: []hast.CmdArg{{Word: "0"}, {Word: "0"}}}
			}
		case "compound-assign-unknown-variable":
			st = &hast.Stmt{K: hast.SSet, Var: "never_set", Op: r.Pick("+=", "-=", "*=", "/=", "%="), X: n("1")}
		case "assignment-changes-type":
			st = &hast.Stmt{K: hast.SSet, Var: "fuel", Op: "=", X: pick2(r, hast.Str("x"), hast.Bool(true))}
		case "store-wiped-while-assigning":
			// the right-hand side calls a host function that clears the store: the variable being assigned
			// to is gone when its previous value is needed
			st = &hast.Stmt{K: hast.SSet, Var: "fuel", Op: r.Pick("+=", "-=", "*="), X: hast.Call("wipe")}
		case "command-of-white-space-only":
			// a command whose whole text is white space that is not a blank or a tab: it has no name
			st = &hast.Stmt{K: hast.SCommand, Name: r.Pick("\u00a0", "\u3000", "\u0085", "\u00a0\u00a0")}
		case "async-command-error":
			// the command's error arrives after the call that started it has returned
			st = &hast.Stmt{K: hast.SCommand, Name: r.Pick("afail_goroutine", "afail_channel"), Args: []hast.CmdArg{{Word: "x"}}}
		case "host-function-error-of-concrete-type":
			// a converted host function whose error result has a concrete type (struct, pointer, string kind)
			st = &hast.Stmt{K: hast.SCall, X: hast.Call(r.Pick("herr_struct", "herr_pointer", "herr_string", "herr_struct_only"), n("1"))}
		}
	}
	st.ID = next()
	// insert: half of the time at the top level of the start node (after the declarations), else anywhere
	bodies := bodiesOf(prog)
	b := bodies[0]
	if r.Bool() {
		b = bodies[r.Intn(len(bodies))]
	}
	at := r.Range(0, len(*b))
	if b == bodies[0] && at < 7 {
		at = min(7, len(*b)) // after the variable declarations of the start node
	}
	// an option group must not touch another one
	if st.K == hast.SOptions {
		for at > 0 && (*b)[at-1].K == hast.SOptions || at < len(*b) && (*b)[at].K == hast.SOptions {
			if at < len(*b) {
				at++
			} else {
				st = &hast.Stmt{K: hast.SLine, Parts: []hast.Part{hast.Lit("F "), hast.Inl(hast.Var("nope"))}, ID: st.ID}
				class, pos = "unknown-variable", "line-inline"
				break
			}
		}
	}
	nb := append([]*hast.Stmt{}, (*b)[:at]...)
	nb = append(nb, st)
	nb = append(nb, (*b)[at:]...)
	*b = nb

	scripts := hast.Render(prog, hast.L0())
	useDef := r.Bool()
	if useDef {
		c.Feature("default-store")
	} else {
		c.Feature("recording-store")
	}
	herr := func([]model.Val) (model.Val, bool, error) { return model.None, false, mon.ErrHost }
	pair, err, pan := NewPair(prog, scripts, PairOpts{UseDefaultStore: useDef,
		ExtraFuncs: map[string]model.Fn{"herr_struct": herr, "herr_pointer": herr, "herr_string": herr, "herr_struct_only": herr}}, r.Fork())
	if err != nil || pan != "" {
		c.Violate("a generated, syntactically valid program (with one planted script-level fault) failed to load", map[string]any{"readers": scripts, "fault": class, "position": pos, "error": fmt.Sprint(err), "panic": pan})
		return
	}
	if err := c06Host(pair); err != nil {
		c.Violate("registering a host function or command of a supported shape failed: "+err.Error(), map[string]any{"readers": scripts})
		return
	}
	// host configuration: one runner in three is first restored from its own initial snapshot
	// (which must not change anything)
	if r.Chance(1, 3) {
		snap := pair.R.DR.Snapshot()
		if err := pair.R.RestoreAt(snap); err != nil {
			c.Violate("restoring a runner from its own initial snapshot failed: "+err.Error(), map[string]any{"readers": scripts})
			return
		}
		pair.M.Restore(pair.M.Check.Clone())
		pair.Trace = append(pair.Trace, "RestoreAt(Snapshot()) before the first step")
		c.Feature("restored-from-own-initial-snapshot")
	}
	var choices []int
	reached := false
	for step := 0; step < 300; step++ {
		choice := 0
		if pair.M.Waiting() {
			choice = r.Intn(pair.M.NumOptions())
			choices = append(choices, choice)
		}
		want, got, diff := pair.Step(choice)
		if want.Kind == model.OBudget {
			c.Discard()
			return
		}
		c.Event(want.Kind.String(), 1)
		if diff != "" {
			what := "a script-level fault did not surface as an error"
			if got.Kind == mon.KPanic {
				what = "Next panicked"
			} else if want.Kind != model.OErr {
				what = "the run diverges from the model before the planted fault"
			}
			d := pair.Detail(choices, want, got, diff)
			d["fault"], d["position"] = class, pos
			c.Violate(what+": "+diff, d)
			return
		}
		if want.Kind == model.OErr {
			reached = want.Stmt == st
			break
		}
		if want.Kind == model.OEnd {
			break
		}
	}
	if !reached {
		c.Feature("faults-not-reached")
		return
	}
	c.Feature("faults-reached")
	c.Feature("reached:" + class)
	if pos != "statement" {
		c.Feature("reached-at:" + pos)
	}
	// the runner must remain usable
	waiting := false
	stuck := 0
	for i := 0; i < 30; i++ {
		arg := 0
		if !waiting {
			arg = pair.garbageArg()
		}
		got := pair.R.Next(arg)
		c.Feature("post-error-next-calls")
		c.Feature("post-error:" + got.Kind.String())
		pair.Trace = append(pair.Trace, fmt.Sprintf("after the error: Next(%d) = %s", arg, got))
		if got.Kind == mon.KPanic {
			d := pair.Detail(choices, model.Outcome{Kind: model.OErr}, got, "panic after an error")
			d["fault"], d["position"] = class, pos
			c.Violate("after an error the runner is not usable: Next panicked", d)
			return
		}
		waiting = got.Kind == mon.KOptions
		// every command of this workload completes on its own: a runner that still says "waiting" after
		// five rounds of 2000 polls (>= 0.5 s) waits for something that is over
		if got.Kind == mon.KWaiting {
			stuck++
			if stuck >= 5 {
				d := pair.Detail(choices, model.Outcome{Kind: model.OErr}, got, "stuck in the waiting state after an error")
				d["fault"], d["position"] = class, pos
				c.Violate("after an error the runner is not usable: it keeps waiting for a command although every command has completed", d)
				return
			}
		} else {
			stuck = 0
		}
	}
	c.Nontrivial(strings.Join(scripts, "\x00"), fmt.Sprint(choices))
	if c.WantSample() {
		c.Sample(map[string]any{"readers": scripts, "fault": class, "position": pos, "choices": choices, "trace": pair.Trace[max(0, len(pair.Trace)-6):]})
	}
}

type c06StructErr struct{ msg string }

func (e c06StructErr) Error() string { return e.msg }

type c06PtrErr struct{ msg string }

func (e *c06PtrErr) Error() string { return e.msg }

type c06StrErr string

func (e c06StrErr) Error() string { return string(e) }

// c06Host registers, on both sides, the handlers of the host-side fault classes.
func c06Host(p *Pair) error {
	for _, name := range []string{"afail_goroutine", "afail_channel"} {
		p.M.Host.Cmds[name] = func([]model.Val) error { return mon.ErrHost }
	}
	if err := p.R.DR.ConvertAndAddCommand("afail_goroutine", func(string) error { return mon.ErrHost }); err != nil {
		return err
	}
	p.R.DR.AddCommand("afail_channel", func([]*variable.Value) <-chan error {
		ch := make(chan error, 1)
		go func() { ch <- mon.ErrHost }()
		return ch
	})
	// (the model's side of the herr_* functions is installed by NewPair; here the real runner gets converted ones)
	if err := p.R.DR.ConvertAndAddFunction("herr_struct", func(float64) (float64, c06StructErr) { return 0, c06StructErr{"struct error"} }); err != nil {
		return err
	}
	if err := p.R.DR.ConvertAndAddFunction("herr_pointer", func(float64) (float64, *c06PtrErr) { return 0, &c06PtrErr{"pointer error"} }); err != nil {
		return err
	}
	if err := p.R.DR.ConvertAndAddFunction("herr_string", func(float64) (float64, c06StrErr) { return 0, c06StrErr("string-kind error") }); err != nil {
		return err
	}
	return p.R.DR.ConvertAndAddFunction("herr_struct_only", func(float64) c06StructErr { return c06StructErr{"struct error"} })
}

// longRun: one Next that executes about 2*10^5 non-yielding statements.
func (c06) longRun(c *core.Ctx) {
	script := "title: Start\n---\n<<set $i to 0>>\n<<jump Loop>>\n===\ntitle: Loop\n---\n<<if $i < 60000>>\n    <<set $i += 1>>\n    <<jump Loop>>\n<<endif>>\nafter {$i} iterations\n===\n"
	r, err, pan := mon.Create(nil, "", []string{script})
	if err != nil || pan != "" {
		c.Violate("the long-run script failed to load", map[string]any{"readers": []string{script}, "error": fmt.Sprint(err), "panic": pan})
		return
	}
	o := r.Next(0)
	if o.Kind != mon.KLine || o.Text != "after 60000 iterations" {
		c.Violate("a fault-free run of 2*10^5 non-yielding statements did not return its line: "+o.String(), map[string]any{"readers": []string{script}})
		return
	}
	c.Feature("long-non-yielding-run")
	c.Nontrivial(script)
}
