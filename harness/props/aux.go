package props

import (
	"fmt"
	"os"
)

// auxCommands are helper sub-commands some properties run in fresh processes.
var auxCommands = map[string]func(args []string) int{}

// Aux dispatches `vcheck aux <name> args…`.
func Aux(args []string) int {
	if len(args) == 0 {
		fmt.Fprintln(os.Stderr, "aux: missing name")
		return 64
	}
	f, ok := auxCommands[args[0]]
	if !ok {
		fmt.Fprintln(os.Stderr, "aux: unknown command", args[0])
		return 64
	}
	return f(args[1:])
}
