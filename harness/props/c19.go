package props

import (
	"fmt"
	"math"
	"math/big"
	"strings"

	"github.com/remieven/ysgo/variable"
	"github.com/remieven/ysgo/verifharness/core"
	"github.com/remieven/ysgo/verifharness/hast"
	"github.com/remieven/ysgo/verifharness/model"
	"github.com/remieven/ysgo/verifharness/mon"
)

// C19 — numeric and conversion built-ins satisfy their contracts for all numbers.
type c19 struct{}

func init() { core.Register(c19{}) }

func (c19) ID() string { return "C19" }

// EvalFeatures names the counters of judged executions.
func (c19) EvalFeatures() []string { return []string{"values", "conversion-error-cases"} }

func (c19) Cases(tier string) int {
	if tier == "thorough" {
		return 200000
	}
	return 4000
}

var c19Classes = []string{"random-bits", "integer", "half-way", "next-to-half-way", "next-to-integer", "signed-zero", "subnormal", "power-of-ten", "next-to-power-of-ten", "small-decimal", "near-2^52"}

func (c19) Thresholds(tier string) map[string]int64 {
	th := map[string]int64{
		"values":                             60000,
		"contract-checks":                    800000,
		"half-way:negative":                  2000,
		"half-way:positive":                  2000,
		"conversion-error-cases":             6000,
		"round_places-within-1-ulp-of-bound": 1,
		"nested-call-arguments":              100000,
		"string-of-a-string":                 30000,
		"literal-argument-calls":             50000,
	}
	for _, cl := range c19Classes {
		th["class:"+cl] = 1500
	}
	for n := 0; n <= 8; n++ {
		th[fmt.Sprintf("places:%d", n)] = 3000
	}
	return th
}

func (c19) Rule() string {
	return "case = 24 finite doubles x with |x| < 2^52 drawn from the classes {" + strings.Join(c19Classes, ", ") + "}, pre-loaded into the variable store (no literal printing involved), and one script that captures, through a raw host function, the typed results of floor, ceil, inc, dec, integer, decimal, round, round_places(x,n) for a PRNG n in 0..8, number(string(x)), number(x), string(string(x)), bool(string(b)), bool(b) for each of them, round_places again with arguments that are themselves calls (round_places(x, integer(p)), round_places(number(string(x)), number(string(n)))), and string(s), string(string(s)) for 6 strings from a pool with brackets, backslashes, quotes, blanks, line breaks, multi-byte and number/boolean look-alikes (must come back unchanged); the node is run twice by the same runner through a jump, and 11 calls with literal arguments (inc(2.5), dec(7), ...) must give the same, correct result in both passes; plus two scripts converting a string that is neither a number nor a boolean (must be an error). Oracle: the inequalities of the property evaluated exactly in rational arithmetic (math/big; a float64 comparison would accept round(0.49999999999999994) = 1, because 1 - x rounds to 0.5) (integrality, floor<=x<floor+1, ceil-1<x<=ceil, inc = least integer > x, dec = greatest integer < x, integer truncates toward zero, integer+decimal == x, |round-x|<=0.5, number(string(x)) == x numerically, identities); round_places: |r-x| <= 0.5*10^-n + 2 ulp(x), computed with math/big rationals. Non-trivial: x is non-integral, a half-way case, adjacent to an integer, or a signed zero. Distinct by the bit pattern of x."
}

func (c19) Assumptions() []string {
	return []string{
		"the 2 ulp(x) term of the round_places bound is the representation allowance of a correct multiply-round-divide in float64 (the exact half unit is not representable)",
		"strings used for the error cases are clearly neither numbers nor booleans (alphabetic words, the empty string, punctuation)",
	}
}

var c19Strings = []string{"array[3]", "[b]x[/b]", "\\", "a\\b", "say \"hi\"", "  padded  ", "", "True", "true", "12", "1e3", "-0", "été", "日本", "{x}", "#tag", "// c", "<<cmd>>", "a]b[", "%", "\t", "line\nbreak", "\\[", "NaN", "0.50", "😀"}

func c19Value(r *core.Rand) (float64, string) {
	sign := func(x float64) float64 {
		if r.Bool() {
			return -x
		}
		return x
	}
	switch cl := c19Classes[r.Intn(len(c19Classes))]; cl {
	case "random-bits":
		e := r.Range(-40, 51)
		m := 1 + r.Float()
		return sign(math.Ldexp(m, e)), cl
	case "integer":
		return sign(float64(r.U64() % (1 << uint(r.Range(1, 51))))), cl
	case "half-way":
		return sign(float64(r.U64()%(1<<uint(r.Range(1, 40)))) + 0.5), cl
	case "next-to-half-way":
		x := float64(r.U64()%(1<<uint(r.Range(1, 30)))) + 0.5
		if r.Chance(1, 10) {
			x = 0.5 // the predecessor of 0.5 is the classic floor(x+0.5) trap
		}
		if r.Bool() {
			return sign(math.Nextafter(x, math.Inf(1))), cl
		}
		return sign(math.Nextafter(x, math.Inf(-1))), cl
	case "next-to-integer":
		x := float64(r.U64() % (1 << uint(r.Range(1, 45))))
		if r.Bool() {
			return sign(math.Nextafter(x, math.Inf(1))), cl
		}
		return sign(math.Nextafter(x, math.Inf(-1))), cl
	case "signed-zero":
		return sign(0), cl
	case "subnormal":
		return sign(math.Float64frombits(r.U64() % (1 << 52))), cl
	case "power-of-ten":
		return sign(math.Pow10(r.Range(-9, 15))), cl
	case "next-to-power-of-ten":
		x := math.Pow10(r.Range(-9, 15))
		if r.Bool() {
			return sign(math.Nextafter(x, math.Inf(1))), cl
		}
		return sign(math.Nextafter(x, 0)), cl
	case "small-decimal":
		// k / 10^d: the values round_places is used on
		d := r.Range(1, 9)
		return sign(float64(r.Range(0, 2000000)) / math.Pow10(d)), cl
	default: // near-2^52
		return sign(float64(uint64(1)<<52) - float64(r.Range(1, 4000))/2), cl
	}
}

func ratOf(x float64) *big.Rat { return new(big.Rat).SetFloat64(x) }

func ulp(x float64) *big.Rat {
	x = math.Abs(x)
	if x < 0x1p-1022 {
		return new(big.Rat).SetFloat64(0x1p-1074)
	}
	_, e := math.Frexp(x) // x = f * 2^e, f in [0.5,1)
	return new(big.Rat).SetFloat64(math.Ldexp(1, e-53))
}

func isInt(x float64) bool { return x == math.Trunc(x) }

func (p c19) Run(c *core.Ctx) {
	r := c.R
	const nv = 24
	st := mon.NewRecStorer()
	xs := make([]float64, nv)
	cls := make([]string, nv)
	places := make([]int, nv)
	var body []*hast.Stmt
	id := 0
	capStmt := func(e *hast.Expr) {
		id++
		body = append(body, &hast.Stmt{K: hast.SCall, X: hast.Call("cap", hast.Num(fmt.Sprint(id)), e), ID: id})
	}
	fns := []string{"floor", "ceil", "inc", "dec", "integer", "decimal", "round"}
	for i := 0; i < nv; i++ {
		xs[i], cls[i] = c19Value(r)
		places[i] = r.Range(0, 8)
		st.HostSet(fmt.Sprintf("x%d", i), model.N(xs[i]))
		st.HostSet(fmt.Sprintf("b%d", i), model.B(i%2 == 0))
		v := hast.Var(fmt.Sprintf("x%d", i))
		for _, f := range fns {
			capStmt(hast.Call(f, v))
		}
		capStmt(hast.Call("round_places", v, hast.Num(fmt.Sprint(places[i]))))
		capStmt(hast.Call("number", hast.Call("string", v)))
		capStmt(hast.Call("number", v))
		capStmt(hast.Call("string", hast.Call("string", v)))
		capStmt(hast.Call("string", v))
		capStmt(hast.Call("bool", hast.Call("string", hast.Var(fmt.Sprintf("b%d", i)))))
		capStmt(hast.Call("bool", hast.Var(fmt.Sprintf("b%d", i))))
		// the same contracts when the arguments are themselves calls (an argument list under construction
		// must survive the evaluation of a nested call)
		st.HostSet(fmt.Sprintf("p%d", i), model.N(float64(places[i])+0.5))
		capStmt(hast.Call("round_places", v, hast.Call("integer", hast.Var(fmt.Sprintf("p%d", i)))))
		capStmt(hast.Call("round_places", hast.Call("number", hast.Call("string", v)), hast.Call("number", hast.Call("string", hast.Num(fmt.Sprint(places[i]))))))
		c.Feature("class:" + cls[i])
		c.Feature(fmt.Sprintf("places:%d", places[i]))
		c.Feature("values")
		if cls[i] == "half-way" {
			if xs[i] < 0 {
				c.Feature("half-way:negative")
			} else {
				c.Feature("half-way:positive")
			}
		}
		if !isInt(xs[i]) || xs[i] == 0 || cls[i] == "next-to-integer" {
			c.Nontrivial(fmt.Sprint(math.Float64bits(xs[i])))
		}
	}
	const perValue = 16
	// strings: string() of a string returns it unchanged, whatever it contains
	strs := make([]string, 6)
	for j := range strs {
		strs[j] = c19Strings[r.Intn(len(c19Strings))]
		st.HostSet(fmt.Sprintf("s%d", j), model.S(strs[j]))
		body = append(body,
			&hast.Stmt{K: hast.SCall, X: hast.Call("cap", hast.Num(fmt.Sprint(10000+j)), hast.Call("string", hast.Var(fmt.Sprintf("s%d", j))))},
			&hast.Stmt{K: hast.SCall, X: hast.Call("cap", hast.Num(fmt.Sprint(20000+j)), hast.Call("string", hast.Call("string", hast.Var(fmt.Sprintf("s%d", j)))))})
	}
	// the built-ins applied directly to literals written in the script, and the whole node run twice by the
	// same runner (the second pass must give what the first gave)
	type litCall struct {
		f, lit string
		want   float64
		neg    bool // written as -f(lit): the result of the call under a unary operator
	}
	lits := []litCall{{"inc", "2.5", 3, false}, {"dec", "2.5", 2, false}, {"floor", "2.5", 2, false}, {"ceil", "2.5", 3, false}, {"integer", "2.5", 2, false}, {"decimal", "2.5", 0.5, false},
		{"inc", "7", 8, false}, {"dec", "7", 6, false}, {"round", "7.25", 7, false}, {"inc", "0", 1, false}, {"dec", "0", -1, false},
		{"number", "2.5", -2.5, true}, {"number", "7", -7, true}, {"integer", "2.5", -2, true}, {"inc", "2.5", -3, true}, {"decimal", "2.5", -0.5, true}}
	for k, lc := range lits {
		idExpr := hast.Bin("+", hast.Num(fmt.Sprint(30000+k)), hast.Bin("*", hast.Var("pass"), hast.Num("1000")))
		call := hast.Call(lc.f, hast.Num(lc.lit))
		if lc.neg {
			call = hast.Neg(call)
		}
		body = append(body, &hast.Stmt{K: hast.SCall, X: hast.Call("cap", idExpr, call)})
	}
	st.HostSet("pass", model.N(0))
	body = append(body, &hast.Stmt{K: hast.SIf, Clauses: []*hast.Clause{{
		Cond: hast.Bin("==", hast.Var("pass"), hast.Num("0")),
		Body: []*hast.Stmt{{K: hast.SSet, Var: "pass", Op: "=", X: hast.Num("1")}, {K: hast.SJump, Target: "Start"}},
	}}})
	body = append(body, &hast.Stmt{K: hast.SLine, Parts: []hast.Part{hast.Lit("done")}})
	prog := &hast.Program{Readers: 1, Nodes: []*hast.Node{{Title: "Start", Body: body}}}
	scripts := hast.Render(prog, hast.L0())
	rr, err, pan := mon.Create(st, "", scripts)
	if err != nil || pan != "" {
		c.Violate("the built-ins script failed to load", map[string]any{"readers": scripts, "error": fmt.Sprint(err), "panic": pan})
		return
	}
	got := map[int]model.Val{}
	rr.DR.AddFunction("cap", func(a []*variable.Value) (*variable.Value, error) {
		if len(a) == 2 && a[0] != nil && a[0].Number != nil {
			v, _ := mon.ToVal(a[1])
			got[int(*a[0].Number)] = v
		}
		return nil, nil
	})
	// another runner of the process replaces built-ins with functions of its own: that is its business alone
	if other, err, pan := mon.Create(nil, "", scripts); err == nil && pan == "" {
		wrong := func([]*variable.Value) (*variable.Value, error) { return variable.NewNumber(-12345), nil }
		for _, f := range []string{"floor", "ceil", "inc", "dec", "integer", "decimal", "round", "round_places", "number"} {
			other.DR.AddFunction(f, wrong)
		}
		other.DR.AddFunction("string", func([]*variable.Value) (*variable.Value, error) { return variable.NewString("overridden"), nil })
		other.DR.AddFunction("bool", func([]*variable.Value) (*variable.Value, error) { return variable.NewBoolean(false), nil })
		c.Feature("another-runner-overrides-the-built-ins")
	}
	o := rr.Next(0)
	if o.Kind != mon.KLine {
		c.Violate("evaluating the built-ins on in-domain numbers did not complete: "+o.String(), map[string]any{"readers": scripts, "values": fmt.Sprint(xs)})
		return
	}
	bad := func(i int, f string, res model.Val, why string) {
		c.Violate(fmt.Sprintf("%s violates its contract: %s", f, why), map[string]any{
			"x": fmt.Sprintf("%v (bits %#x, class %s)", xs[i], math.Float64bits(xs[i]), cls[i]), "function": f, "result": res.String(), "places": places[i]})
	}
	for i := 0; i < nv && !c.Failed(); i++ {
		x := xs[i]
		base := i * perValue
		num := func(k int, f string) (float64, bool) {
			v, ok := got[base+k]
			if !ok || v.T != hast.TNum {
				bad(i, f, v, "result is not a number")
				return 0, false
			}
			if math.IsNaN(v.N) || math.IsInf(v.N, 0) {
				bad(i, f, v, "result is not a finite number although x is finite and below 2^52")
				return 0, false
			}
			c.Feature("contract-checks")
			return v.N, true
		}
		lt := func(a, b *big.Rat) bool { return a.Cmp(b) < 0 }
		le := func(a, b *big.Rat) bool { return a.Cmp(b) <= 0 }
		one := big.NewRat(1, 1)
		plus1 := func(v float64) *big.Rat { return new(big.Rat).Add(ratOf(v), one) }
		minus1 := func(v float64) *big.Rat { return new(big.Rat).Sub(ratOf(v), one) }
		X := ratOf(x)
		if v, ok := num(1, "floor"); ok && !(isInt(v) && le(ratOf(v), X) && lt(X, plus1(v))) {
			bad(i, "floor", got[base+1], "need integer with floor <= x < floor+1")
		}
		if v, ok := num(2, "ceil"); ok && !(isInt(v) && lt(minus1(v), X) && le(X, ratOf(v))) {
			bad(i, "ceil", got[base+2], "need integer with ceil-1 < x <= ceil")
		}
		if v, ok := num(3, "inc"); ok && !(isInt(v) && lt(X, ratOf(v)) && le(minus1(v), X)) {
			bad(i, "inc", got[base+3], "need the least integer greater than x")
		}
		if v, ok := num(4, "dec"); ok && !(isInt(v) && lt(ratOf(v), X) && le(X, plus1(v))) {
			bad(i, "dec", got[base+4], "need the greatest integer less than x")
		}
		iv, ok5 := num(5, "integer")
		if ok5 && !(isInt(iv) && math.Abs(iv) <= math.Abs(x) && new(big.Rat).Sub(ratOf(math.Abs(x)), ratOf(math.Abs(iv))).Cmp(big.NewRat(1, 1)) < 0 && (iv == 0 || (iv < 0) == (x < 0))) {
			bad(i, "integer", got[base+5], "need truncation toward zero")
		}
		if dv, ok := num(6, "decimal"); ok && ok5 && new(big.Rat).Add(ratOf(iv), ratOf(dv)).Cmp(ratOf(x)) != 0 {
			bad(i, "decimal", got[base+6], fmt.Sprintf("need integer(x)+decimal(x) == x, integer(x) = %v", iv))
		}
		if v, ok := num(7, "round"); ok {
			// exact: |round(x) - x| <= 1/2 in rational arithmetic (in float64, 1 - 0.49999999999999994 rounds to 0.5)
			d := new(big.Rat).Sub(ratOf(v), ratOf(x))
			d.Abs(d)
			if !isInt(v) || d.Cmp(big.NewRat(1, 2)) > 0 {
				bad(i, "round", got[base+7], "need an integer within 0.5 of x (exact comparison); |round(x)-x| = "+d.FloatString(25))
			}
		}
		if v, ok := num(8, "round_places"); ok {
			diff := new(big.Rat).Sub(ratOf(v), ratOf(x))
			diff.Abs(diff)
			half := new(big.Rat).SetFrac(big.NewInt(1), new(big.Int).Mul(big.NewInt(2), new(big.Int).Exp(big.NewInt(10), big.NewInt(int64(places[i])), nil)))
			bound := new(big.Rat).Add(half, new(big.Rat).Mul(big.NewRat(2, 1), ulp(x)))
			if diff.Cmp(bound) > 0 {
				bad(i, "round_places", got[base+8], fmt.Sprintf("need |r - x| <= 0.5*10^-%d + 2ulp(x); |r-x| = %s", places[i], diff.FloatString(25)))
			}
			if diff.Cmp(new(big.Rat).Sub(half, ulp(x))) >= 0 {
				c.Feature("round_places-within-1-ulp-of-bound")
			}
		}
		for k, f := range map[int]string{15: "round_places(x, integer(p))", 16: "round_places(number(string(x)), number(string(n)))"} {
			if v, ok := num(k, f); ok {
				diff := new(big.Rat).Sub(ratOf(v), ratOf(x))
				diff.Abs(diff)
				half := new(big.Rat).SetFrac(big.NewInt(1), new(big.Int).Mul(big.NewInt(2), new(big.Int).Exp(big.NewInt(10), big.NewInt(int64(places[i])), nil)))
				bound := new(big.Rat).Add(half, new(big.Rat).Mul(big.NewRat(2, 1), ulp(x)))
				if diff.Cmp(bound) > 0 {
					bad(i, f, got[base+k], fmt.Sprintf("need |r - x| <= 0.5*10^-%d + 2ulp(x); |r-x| = %s", places[i], diff.FloatString(25)))
				}
				c.Feature("nested-call-arguments")
			}
		}
		if v, ok := num(9, "number(string(x))"); ok && !(v == x) {
			bad(i, "number(string(x))", got[base+9], "need number(string(x)) == x")
		}
		if v, ok := num(10, "number(x)"); ok && !(v == x) {
			bad(i, "number(x)", got[base+10], "need the number unchanged")
		}
		s2, s1 := got[base+11], got[base+12]
		c.Feature("contract-checks")
		if s1.T != hast.TStr || s2.T != hast.TStr || s1.S != s2.S {
			bad(i, "string(string(x))", s2, "need a string returned unchanged by string(); string(x) = "+s1.String())
		}
		wantB := i%2 == 0
		for k, f := range map[int]string{13: "bool(string(b))", 14: "bool(b)"} {
			v := got[base+k]
			c.Feature("contract-checks")
			if v.T != hast.TBool || v.B != wantB {
				bad(i, f, v, fmt.Sprintf("need %v", wantB))
			}
		}
	}
	for k, lc := range lits {
		for pass := 0; pass < 2; pass++ {
			v, ok := got[30000+k+pass*1000]
			c.Feature("contract-checks")
			c.Feature("literal-argument-calls")
			if !ok || v.T != hast.TNum || v.N != lc.want {
				c.Violate(fmt.Sprintf("%s(%s) written with a literal argument violates its contract", lc.f, lc.lit), map[string]any{
					"pass_of_the_node": pass + 1, "result": v.String(), "want": lc.want})
				break
			}
		}
	}
	for j, want := range strs {
		for _, base := range []int{10000, 20000} {
			v, ok := got[base+j]
			c.Feature("contract-checks")
			c.Feature("string-of-a-string")
			if !ok || v.T != hast.TStr || v.S != want {
				c.Violate("string() of a value that is already a string does not return it unchanged", map[string]any{"string": want, "result": v.String(), "nested_twice": base == 20000})
				break
			}
		}
	}
	if c.Failed() {
		return
	}
	if c.WantSample() {
		c.Sample(map[string]any{"x": xs[:6], "classes": cls[:6], "floor/ceil/inc/dec/integer/decimal/round/round_places of x[0]": fmt.Sprint(got[1], got[2], got[3], got[4], got[5], got[6], got[7], got[8]), "places": places[0]})
	}
	// ---- converting a string that is neither a number nor a boolean is an error
	for _, f := range []string{"number", "bool"} {
		w := r.Pick("abc", "", "é", "--", "?!", "maybe", "yes", "twelve", "n/a", "vrai")
		script := "title: Start\n---\n<<call cap(1, " + f + "(\"" + w + "\"))>>\nafter\n===\n"
		e, err, pan := mon.Create(nil, "", []string{script})
		if err != nil || pan != "" {
			c.Violate("a conversion script failed to load", map[string]any{"readers": []string{script}, "error": fmt.Sprint(err), "panic": pan})
			return
		}
		called := false
		e.DR.AddFunction("cap", func(a []*variable.Value) (*variable.Value, error) { called = true; return nil, nil })
		o := e.Next(0)
		c.Feature("conversion-error-cases")
		if o.Kind != mon.KErr || called {
			c.Violate(fmt.Sprintf("%s(%q) must be an error, got %s", f, w, o), map[string]any{"readers": []string{script}})
			return
		}
	}
}
