//go:build race

package props

const raceEnabled = true
