package props

import (
	"encoding/json"
	"fmt"
	"github.com/remieven/ysgo/markup"
	"os"
	"os/exec"
	"runtime"
	"sort"
	"strconv"
	"strings"
	"sync"
	"time"

	ysgo "github.com/remieven/ysgo"
	"github.com/remieven/ysgo/verifharness/core"
	"github.com/remieven/ysgo/verifharness/gen"
	"github.com/remieven/ysgo/verifharness/hast"
	"github.com/remieven/ysgo/verifharness/mon"
)

// C18 — independent runners can be created and driven concurrently.
type c18 struct{}

func init() { core.Register(c18{}) }

func (c18) ID() string { return "C18" }

// EvalFeatures names the counters of judged executions.
func (c18) EvalFeatures() []string { return []string{"runners"} }

func (c18) Race() bool { return true }

func (c18) Cases(tier string) int {
	if tier == "thorough" {
		return 400
	}
	return 16
}

// one case per child process: every case starts with cold parser caches
func (c18) Chunk(tier string) int { return 1 }

func (c18) Env(tier string, work string) []string {
	return []string{"GORACE=halt_on_error=0 log_path=" + work + "/race", "GOMAXPROCS=16"}
}

func (c18) Thresholds(tier string) map[string]int64 {
	return map[string]int64{
		"children-with-cold-caches": 16,
		"goroutines":                300,
		"runners":                   500,
		"steps":                     5000,
		"traces-compared-with-sequential-reference": 350,
		"cold-cache-concurrent-first-parses":        100,
		"G=2":                                       2,
		"G=8":                                       2,
		"G=16":                                      2,
		"G=64":                                      2,
		"distinct-interleaving-prefixes":            12,
		"race-detector-enabled-children":            16,
		"race-canary-reported":                      1,
		"scripts-with-a-syntax-error-created-concurrently":       20,
		"creation-from-a-reader-that-waits-for-another-creation": 16,
		"shared-snapshot-unchanged-after-the-concurrent-phase":   16,
		"128-runners-with-a-pending-command-each":                16,
	}
}

func (c18) Rule() string {
	return "case = one fresh child process under the race detector (cold ANTLR DFA / prediction-context caches, GOMAXPROCS=16): G in {2, 8, 16, 64} goroutines are released by one barrier; each creates 1-3 runners from different generated programs (parsing concurrently), registers functions and commands and steps them along a PRNG choice policy with PRNG runtime.Gosched() between steps; programs use markup, the random built-ins with seeds, visit counts, variables and commands; every runner runs a raw command whose handler reads its arguments later from a goroutine of its own (they must still be the words written in that runner's script), every second runner is first restored from ONE snapshot value shared by all goroutines, one script in five carries a planted syntax error (its creation must fail with its own error text while the others are created), and every host writes a property of its own into the attribute maps of each element it was handed (they are its values). One runner (goroutine 1's first) gets its script from a reader that delivers only after goroutine 0 has created its first runner; a 5-minute watchdog around the phase (normally a second or two) reports creations that block one another. Apart from that one ordered pair, during the concurrent phase the harness performs no synchronisation of its own (per-goroutine logs with monotonic time stamps, merged afterwards), so that it cannot hide a race. After the phase, 128 further runners (created and stepped by 8 goroutines) each keep one command pending at the same time - a converted handler blocked on a gate, or the built-in wait: each must report that it is waiting for its command, and resume when its handler returns. Afterwards the same (program, seed, choice policy) executions are repeated sequentially in another fresh process. Oracle: every concurrent execution has the digest of its sequential reference (elements, errors, final variables) and the parent finds zero race-detector reports with a ysgo/antlr frame in the GORACE log files. Non-trivial: >=2 goroutines each stepping >=1 runner whose steps interleave in the merged log. Distinct by hash of the interleaving prefix."
}

func (c18) Assumptions() []string {
	return []string{
		"each runner is used by exactly one goroutine (the property says so)",
		"interleavings are measured from per-goroutine monotonic time stamps merged after the run; a 'distinct interleaving' is a distinct sequence of runner ids in the first 48 steps",
		"a race report without any ysgo/antlr frame would be a harness bug and makes the run inconclusive",
	}
}

type c18Step struct {
	t      int64
	runner int
}

func (p c18) Run(c *core.Ctx) {
	if raceEnabled {
		c.Feature("race-detector-enabled-children")
	}
	c.Feature("children-with-cold-caches")
	G := []int{2, 8, 16, 64}[c.Idx%4]
	c.Feature(fmt.Sprintf("G=%d", G))
	r := c.R
	type job struct {
		item   c09Item
		digest string
		sum    string
	}
	// everything is generated before the barrier; generation uses no ysgo code
	jobs := make([][]*job, G)
	id := 0
	invalid := 0
	for g := 0; g < G; g++ {
		for k := r.Range(1, 3); k > 0; k-- {
			cfg := gen.DefaultFlow()
			cfg.Random = true
			cfg.Markup = true
			cfg.Probes = false
			cfg.Tracking = false
			cfg.Unicode = false
			cfg.MaxStmts = 30
			cfg.VisitLines = r.Bool()
			cfg.WStop = 0
			cfg.WJump = 10
			prog := gen.Flow(r, cfg)
			// every runner exercises, right at its start, each feature that could sit in a package-level
			// variable: every marker kind (replacement markers in open and self-closing form), the random
			// built-ins, visit counts, conversions, commands and functions
			choiceSeed := r.U64()
			tag := fmt.Sprintf("w%x", choiceSeed&0xffffff)
			prog.Nodes[0].Body = append(c18Prelude(tag), prog.Nodes[0].Body...)
			scripts := hast.Render(prog, hast.L0())
			// every runner of the process starts from the same first reader (a common boot script) followed by
			// its own: what is shared is the TEXT, never the parsed nodes
			scripts = append([]string{c18Boot}, scripts...)
			if r.Chance(1, 5) {
				// a script with a syntax error, created while the other goroutines create theirs: its error
				// (text included) is its own, and nobody else's creation is affected by it
				scripts[1] = breakSyntax(r, scripts[1])
				invalid++
			}
			// one runner in four is created without a seed (its trace cannot be compared, its creation and
			// stepping still run under the race detector)
			seed := []string{"a", "k3", "zz9", "0", "seed", "x1y2", "", ""}[r.Intn(8)]
			jobs[g] = append(jobs[g], &job{item: c09Item{Idx: id, Scripts: scripts, Seed: seed, ChoiceSeed: choiceSeed, Tag: tag, Restore: id%2 == 0}})
			id++
		}
	}
	// ONE snapshot value is handed to every runner that restores (in every goroutine): restoring must
	// copy what it needs
	shared := startSnapshot()
	base := time.Now()
	firstStart := make([]int64, G)
	firstDone := make([]int64, G)
	logs := make([][]c18Step, G)
	goschedSeeds := make([]uint64, G)
	for g := range goschedSeeds {
		goschedSeeds[g] = r.U64()
	}
	start := make(chan struct{})
	warmupErrs := make([]int, G)
	firstCreated := make(chan struct{})
	var closeOnce sync.Once
	var wg sync.WaitGroup
	for g := 0; g < G; g++ {
		wg.Add(1)
		go func(g int) {
			defer wg.Done()
			gr := core.NewRand(goschedSeeds[g])
			<-start
			// the very first thing every goroutine does, at the same instant, is to parse marked-up lines on a
			// parser value of its own - every marker kind, replacement markers in open form included - so that
			// whatever the markup package keeps at package level is first touched concurrently
			var lp markup.LineParser
			for _, l := range c18MarkupWarmup {
				if res, err := lp.ParseMarkup(l); err != nil || res == nil {
					warmupErrs[g]++
				}
			}
			for k, j := range jobs[g] {
				if k == 0 {
					firstStart[g] = int64(time.Since(base))
				}
				var gate <-chan struct{}
				if g == 1 && k == 0 {
					// creations are independent of one another: the script of this runner only arrives once
					// goroutine 0 has created its first runner (a reader fed by another part of the game).
					// This is the one place where two goroutines of the concurrent phase are ordered by the harness.
					gate = firstCreated
				}
				j.digest, j.sum = c18Exec(j.item, shared, gr, &logs[g], base, gate, func() {
					if k == 0 && firstDone[g] == 0 {
						firstDone[g] = int64(time.Since(base))
						if g == 0 {
							closeOnce.Do(func() { close(firstCreated) })
						}
					}
				})
				if g == 0 {
					// (its creation may have failed: the script may be one of those with a planted syntax error)
					closeOnce.Do(func() { close(firstCreated) })
				}
			}
		}(g)
	}
	close(start)
	finished := make(chan struct{})
	go func() { wg.Wait(); close(finished) }()
	select {
	case <-finished:
	case <-time.After(5 * time.Minute):
		// the whole phase normally takes a second or two
		c.Violate("the concurrent phase did not finish within 5 minutes: a runner whose script arrives late (its reader waits for another runner to be created) blocked the creation of the others", map[string]any{"goroutines": G})
		return
	}
	c.Feature("creation-from-a-reader-that-waits-for-another-creation")
	for g, n := range warmupErrs {
		if n > 0 {
			c.Violate("a well-formed marked-up line failed to parse on a goroutine's own parser value during the concurrent phase", map[string]any{"goroutine": g, "failed_lines": n})
			return
		}
	}
	// the shared snapshot is the host's value: whatever the runners did with it, it is what it was
	if d := mon.SnapEq(startSnapshot(), shared); d != "" || len(shared.VisitedNodes) != len(startSnapshot().VisitedNodes) {
		c.Violate("runners restored from one shared snapshot value modified it", map[string]any{"goroutines": G, "difference": d,
			"visited_nodes_now": fmt.Sprint(shared.VisitedNodes), "visited_nodes_as_handed_over": fmt.Sprint(startSnapshot().VisitedNodes)})
		return
	}
	c.Feature("shared-snapshot-unchanged-after-the-concurrent-phase")
	// ---- many runners of the process each keep a command pending at the same time (128 conversations waiting
	// for their animations): every one of them waits for ITS command, none gets an error because of the others
	{
		const holders = 128
		gate := make(chan struct{})
		script := "title: Start\n---\nbefore\n<<hold 1>>\nafter\n===\n"
		waitScript := "title: Start\n---\nbefore\n<<wait 3600>>\nafter\n===\n"
		runners := make([]*mon.Real, holders)
		problems := make([]string, holders)
		var hw sync.WaitGroup
		for w := 0; w < 8; w++ {
			hw.Add(1)
			go func(w int) {
				defer hw.Done()
				for i := w; i < holders; i += 8 {
					src := script
					if i%4 == 3 {
						src = waitScript
					}
					rr, err, pan := mon.Create(nil, "", []string{src})
					if err != nil || pan != "" {
						problems[i] = "creation failed: " + fmt.Sprint(err) + pan
						continue
					}
					if err := rr.DR.ConvertAndAddCommand("hold", func(float64) { <-gate }); err != nil {
						problems[i] = "registration failed: " + err.Error()
						continue
					}
					runners[i] = rr
					if o := rr.Once(0); o.Kind != mon.KLine {
						problems[i] = "first line: " + o.String()
						continue
					}
					if o := rr.Once(0); o.Kind != mon.KWaiting {
						problems[i] = "the call that started the command returned " + o.String() + " (want: waiting for the command)"
					}
				}
			}(w)
		}
		hw.Wait()
		for i := range problems {
			if problems[i] == "" && runners[i] != nil {
				if o := runners[i].Once(0); o.Kind != mon.KWaiting {
					problems[i] = "a later poll returned " + o.String() + " while the command was still running"
				}
			}
		}
		close(gate)
		for i := range problems {
			if problems[i] == "" && i%4 != 3 {
				if o := runners[i].Next(0); o.Kind != mon.KLine || o.Text != "after" {
					problems[i] = "after the handler returned: " + o.String()
				}
			}
		}
		for i, pr := range problems {
			if pr != "" {
				c.Violate("with 128 runners of the process each keeping one command pending, a runner does not behave as it does alone", map[string]any{"runner": i, "problem": pr, "script": script})
				return
			}
		}
		c.Feature("128-runners-with-a-pending-command-each")
	}
	// ---- evidence from the merged logs
	var merged []c18Step
	steps := 0
	for g := range logs {
		merged = append(merged, logs[g]...)
		steps += len(logs[g])
	}
	sort.Slice(merged, func(i, j int) bool { return merged[i].t < merged[j].t })
	var prefix []string
	switches := 0
	for i, s := range merged {
		if i < 48 {
			prefix = append(prefix, strconv.Itoa(s.runner))
		}
		if i > 0 && merged[i-1].runner != s.runner {
			switches++
		}
	}
	c.SetAdd("interleaving-prefixes", strings.Join(prefix, ","))
	c.Feature("distinct-interleaving-prefixes") // one per child; the parent also counts the distinct set
	c.FeatureN("goroutines", G)
	c.FeatureN("runners", id)
	c.FeatureN("scripts-with-a-syntax-error-created-concurrently", invalid)
	c.FeatureN("steps", steps)
	c.FeatureN("runner-switches-in-merged-log", switches)
	earliestDone := int64(1 << 62)
	for g := 0; g < G; g++ {
		if firstDone[g] > 0 && firstDone[g] < earliestDone {
			earliestDone = firstDone[g]
		}
	}
	for g := 0; g < G; g++ {
		if firstStart[g] < earliestDone {
			c.Feature("cold-cache-concurrent-first-parses") // this goroutine began parsing before any first parse had finished
		}
	}
	if switches >= 2 {
		c.Nontrivial(strings.Join(prefix, ","))
	}
	// ---- sequential reference in another fresh process
	var batch []c09Item
	for _, js := range jobs {
		for _, j := range js {
			batch = append(batch, j.item)
		}
	}
	f, err := os.CreateTemp("", "c18-batch-*.json")
	if err != nil {
		c.Inconclusive("cannot write batch file: " + err.Error())
		return
	}
	defer os.Remove(f.Name())
	json.NewEncoder(f).Encode(batch)
	f.Close()
	self, _ := os.Executable()
	cmd := exec.Command(self, "aux", "c09exec", f.Name(), "forward")
	cmd.Env = append(os.Environ(), "GOMAXPROCS=1", "GORACE=halt_on_error=0")
	out, err := cmd.Output()
	if err != nil {
		c.Inconclusive(fmt.Sprintf("reference process failed: %v", err))
		return
	}
	var ref map[string][2]string
	if err := json.Unmarshal(out, &ref); err != nil {
		c.Inconclusive("reference process output unreadable: " + err.Error())
		return
	}
	for g, js := range jobs {
		for _, j := range js {
			if j.item.Seed == "" {
				c.Feature("runners-created-without-a-seed")
				continue
			}
			want, ok := ref[strconv.Itoa(j.item.Idx)]
			if !ok {
				c.Inconclusive("reference process did not report a runner")
				return
			}
			c.Feature("traces-compared-with-sequential-reference")
			if want[0] != j.digest {
				c.Violate("a runner driven concurrently with others does not produce the trace it produces alone", map[string]any{
					"goroutines": G, "goroutine": g, "readers": j.item.Scripts, "seed": j.item.Seed, "choice_seed": j.item.ChoiceSeed,
					"concurrent_execution": j.sum, "sequential_reference": want[1]})
				return
			}
		}
	}
	if c.Idx < 3 {
		c.Sample(map[string]any{"goroutines": G, "runners": id, "steps": steps, "first_48_steps_by_runner_id": strings.Join(prefix, ","), "runner_switches": switches})
	}
}

var c18MarkupWarmup = []string{
	"Mae: [b]bold[/b] [wave a=1 /] [a][c]y[/a]z[/c] [/]",
	"[nomarkup][raw] text[/nomarkup] and [select value=m m=\"he\" f=\"she\"]x[/select]",
	"[plural value=2 one=\"% cat\" other=\"% cats\"]x[/plural] [ordinal value=3 one=\"%st\" two=\"%nd\" few=\"%rd\" other=\"%th\"]x[/ordinal]",
	"[plural value=1 one=\"% cat\" other=\"% cats\" /] [ordinal value=22 one=\"%st\" two=\"%nd\" few=\"%rd\" other=\"%th\" /] [select value=f m=\"he\" f=\"she\" /]",
}

const c18Boot = "title: Boot\n---\nbooting\n<<jump N1>>\n===\n"

// breakSyntax plants one syntax error in a valid script.
func breakSyntax(r *core.Rand, s string) string {
	switch r.Intn(6) {
	case 4:
		// something indented after the end of the last node: the load is refused while a block is open
		return s + "    : stray " + fmt.Sprint(r.Intn(1000)) + "\n"
	case 5:
		// the first reader ends in the middle of a nested block
		if i := strings.Index(s, "\n    "); i > 0 {
			return s[:i] + "\n        -> cut " + fmt.Sprint(r.Intn(1000)) + "\n            <<if"
		}
	case 0:
		return strings.Replace(s, "\n===\n", "\n<<endif>>\n===\n", 1)
	case 1:
		return strings.Replace(s, "\n---\n", "\n---\n<<set $x to 1 +>>\n", 1)
	case 2:
		return strings.Replace(s, "\n---\n", "\n---\n<<if true>>\nnever closed "+fmt.Sprint(r.Intn(1000))+"\n", 1)
	}
	return strings.Replace(s, "\n---\n", "\n---\nbad {1 +} line "+fmt.Sprint(r.Intn(1000))+"\n", 1)
}

// c18Exec is c09Exec with a per-goroutine step log and PRNG Gosched between steps. It performs no
// synchronisation of its own.
func c18Exec(it c09Item, shared *ysgo.Snapshot, gr *core.Rand, log *[]c18Step, base time.Time, gate <-chan struct{}, created func()) (string, string) {
	eo := execOpts{tag: it.Tag, gate: gate}
	if it.Restore {
		eo.restore = shared
	}
	return c09ExecOpts(it.Scripts, it.Seed, it.ChoiceSeed, func(step int) {
		if step == 0 {
			created()
		}
		*log = append(*log, c18Step{t: int64(time.Since(base)), runner: it.Idx})
		if gr.Chance(1, 3) {
			runtime.Gosched()
		}
	}, eo)
}

// Parent counts race-detector reports.
func (c18) Parent(p *core.ParentCtx, merged *core.Result) {
	countRaces(p, merged, "C18")
	if s, ok := merged.Sets["interleaving-prefixes"]; ok {
		merged.Features["distinct-interleaving-prefixes"] = int64(len(s))
	}
}

func c18Prelude(tag string) []*hast.Stmt {
	line := func(parts ...hast.Part) *hast.Stmt { return &hast.Stmt{K: hast.SLine, Parts: parts} }
	call := func(f string, a ...*hast.Expr) hast.Part { return hast.Inl(hast.Call(f, a...)) }
	return []*hast.Stmt{
		line(hast.Lit("Mae: [b]bold[/b] [wave a=1 /] [a][c]y[/a]z[/c] [/]")),
		line(hast.Lit("[nomarkup][raw] text[/nomarkup] and [select value=m m=\"he\" f=\"she\"]x[/select]")),
		line(hast.Lit("[plural value=2 one=\"% cat\" other=\"% cats\"]x[/plural] [ordinal value=3 one=\"%st\" two=\"%nd\" few=\"%rd\" other=\"%th\"]x[/ordinal]")),
		line(hast.Lit("[plural value=1 one=\"% cat\" other=\"% cats\" /] [ordinal value=22 one=\"%st\" two=\"%nd\" few=\"%rd\" other=\"%th\" /] [select value=f m=\"he\" f=\"she\" /]")),
		line(hast.Lit("draws "), call("dice", hast.Num("6")), hast.Lit(" "), call("random_range", hast.Num("1"), hast.Num("100")), hast.Lit(" "), call("random")),
		line(hast.Lit("visits "), call("visited_count", hast.Str("N1")), hast.Lit(" "), call("visited", hast.Str("N2"))),
		line(hast.Lit("conv "), call("string", hast.Num("1.5")), call("number", hast.Str("12")), call("bool", hast.Str("true")), call("floor", hast.Num("2.5")), call("round_places", hast.Num("2.25"), hast.Num("1"))),
		{K: hast.SCommand, Name: "act", Args: []hast.CmdArg{{Word: "x"}, {Word: "1"}, {Word: "true"}}},
		{K: hast.SCommand, Name: "emote", Args: []hast.CmdArg{{X: hast.Call("dice", hast.Num("4"))}}},
		{K: hast.SCall, X: hast.Call("cap", hast.Num("1"), hast.Call("pure", hast.Str("v")))},
		{K: hast.SCommand, Name: "later", Args: []hast.CmdArg{{Word: tag}, {Word: tag}, {Word: tag}}},
		// a command nobody registered: every runner gets its own "unknown command" error and goes on
		{K: hast.SCommand, Name: "nosuchcommand", Args: []hast.CmdArg{{Word: tag}}},
		line(hast.Lit("prelude done")),
	}
}
