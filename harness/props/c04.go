package props

import (
	"fmt"
	"math"
	"strings"

	"github.com/remieven/ysgo/verifharness/core"
	"github.com/remieven/ysgo/verifharness/gen"
	"github.com/remieven/ysgo/verifharness/hast"
	"github.com/remieven/ysgo/verifharness/model"
	"github.com/remieven/ysgo/verifharness/mon"
)

// C04 — line/option rendering: literal text, escapes, interpolation, tags, Disabled.
type c04 struct{}

func init() { core.Register(c04{}) }

func (c04) ID() string { return "C04" }

// EvalFeatures names the counters of judged executions.
func (c04) EvalFeatures() []string { return []string{"lines", "option-groups", "k1-lines"} }

func (c04) Cases(tier string) int {
	if tier == "thorough" {
		return 60000
	}
	return 1500
}

var c04Positions = []string{"first", "second", "after-expression", "last", "interior"}

func (c04) Thresholds(tier string) map[string]int64 {
	th := map[string]int64{
		"lines":                               15000,
		"option-groups":                       4000,
		"options":                             10000,
		"tags":                                8000,
		"trailing-comments":                   3000,
		"inline:number":                       4000,
		"inline:boolean":                      2000,
		"inline:string":                       2000,
		"display:integer":                     1000,
		"display:negative-zero":               100,
		"display:non-integral-plain":          500,
		"display:exponent-zone":               500,
		"display:big-integer":                 200,
		"display:next-to-an-integer":          1500,
		"cond-subset:none":                    500,
		"cond-subset:all":                     200,
		"cond-subset:some":                    1000,
		"disabled-options":                    2000,
		"cell:first:expression":               1000,
		"surrounding-whitespace":              2000,
		"node-shown-twice":                    500,
		"large-option-group":                  150,
		"long-line":                           300,
		"string-literals-with-escaped-quotes": 1000,
		"option-group-with-a-side-effecting-function": 1000,
		"inline:unary-on-literal":                     800,
	}
	for _, pos := range c04Positions {
		for _, cl := range gen.TextClasses() {
			if pos == "first" && (cl == "blank" || cl == "arrow-inside" || cl == "esc-lbracket" || cl == "esc-rbracket") {
				continue
			}
			th["cell:"+pos+":"+cl] = 5
		}
	}
	return th
}

func (c04) Rule() string {
	return "case = one script of 25 lines and option groups built per character from unit classes {ASCII letters/digits/punctuation, colon, blanks, multi-byte letters, CJK, astral, combining marks, NBSP/ideographic space, bare < > } / and ->, and every escapable character \\\\ \\< \\> \\{ \\} \\# \\/ \\[ \\] escaped} with explicit position classes (first character of the line, second, after an expression, last, interior), 0-4 inline expressions of each type (numbers chosen for display-form coverage: integers up to 2^53-1, -0, 0.1+0.2, values within 1e-9 and within one ulp of an integer, 1e-7, 123456.5, 1234567.5, 1e15+0.5, 1e21), 0-3 tags, trailing comments, blanks at either edge; option groups of 1-5 options with every kind of condition subset (none / some / all; literal, variable-dependent). Ground truth by construction: text = concatenation of the units' outputs and the values' display forms, stripped of surrounding Unicode white space; tags in order; Disabled[i] iff option i carries a condition that is false. Numbers outside the zone in which all shortest-round-trip conventions agree are accepted in any notation that parses back to the value with the shortest digit string (integral values: digits only). Non-trivial: an escape or special character in a non-interior position, or a non-integer number, or a condition subset that is neither empty nor full. Distinct by hash of the source line. A further script per case makes a line (or option) fail half-way through its text and checks that every text returned afterwards is one of the script's literal texts, unchanged. Lines whose text begins with \\[ or \\] are the known finding K1 and run in a sub-workload of their own. Inline expressions and option conditions include literals under unary operators (-5, not false, !true), and half of the scripts show the whole node a second time through a jump (same runner, same parsed tree): the second showing must be rendered exactly as the first."
}

func (c04) Assumptions() []string {
	return []string{
		"string values contain no [ ] or backslash (they would be interpreted by the markup pass, which C13 covers) ",
		"bare [ and ] never occur in line text (markup); bare { # \\\\ cannot be literal text by the grammar",
		"a trailing comment is never glued to a text ending in '/' (\"x/\" + \"//c\" is the text x followed by a comment)",
		"K1 is matched only for a line or option text whose first two source characters are \\[ or \\] and only when loading fails",
	}
}

var c04Pre = map[string]model.Val{
	"int": model.N(42), "neg": model.N(-17), "big": model.N(1<<53 - 1), "nz": model.N(math.Copysign(0, -1)),
	"frac": model.N(0.1 + 0.2), "tiny": model.N(1e-7), "mid": model.N(123456.5), "large": model.N(1234567.5),
	"huge": model.N(1e21), "e15": model.N(1e15 + 0.5), "bigint": model.N(1e18), "third": model.N(1.0 / 3),
	"near1": model.N(2.0000000001), "near2": model.N(math.Nextafter(3, 4)), "near3": model.N(-7.0000000002), "near4": model.N(0.1 * 3 * 10), "near5": model.N(math.Nextafter(1e6, 0)),
	"yes": model.B(true), "no": model.B(false), "round": model.N(0), "cnt": model.N(0),
	"s": model.S("str"), "pad": model.S(" pad "), "uni": model.S("Ünï 日本 😀"), "empty": model.S(""),
}

func c04Expr(r *core.Rand, c *core.Ctx) *hast.Expr {
	switch r.PickW(50, 20, 30) {
	case 0:
		c.Feature("inline:number")
		v := []string{"int", "neg", "big", "nz", "frac", "tiny", "mid", "large", "huge", "e15", "bigint", "third", "near1", "near2", "near3", "near4", "near5"}[r.Intn(17)]
		switch v {
		case "int", "neg", "big":
			c.Feature("display:integer")
		case "nz":
			c.Feature("display:negative-zero")
		case "near1", "near2", "near3", "near4", "near5":
			c.Feature("display:next-to-an-integer")
		case "frac", "mid", "third":
			c.Feature("display:non-integral-plain")
		case "bigint":
			c.Feature("display:big-integer")
		default:
			c.Feature("display:exponent-zone")
		}
		switch r.Intn(4) {
		case 0:
			return hast.Bin("+", hast.Var(v), hast.Num("0"))
		case 1:
			c.Feature("display:integer")
			if r.Chance(1, 3) {
				// a literal under a unary minus (written in the script, not held in a variable)
				c.Feature("inline:unary-on-literal")
				return hast.Neg(hast.Num(r.Pick("5", "2.5", "0", "12.0")))
			}
			return hast.Num(r.Pick("0", "7", "100", "12.0", "3.50", "007"))
		}
		return hast.Var(v)
	case 1:
		c.Feature("inline:boolean")
		return []*hast.Expr{hast.Var("yes"), hast.Var("no"), hast.Bool(true), hast.Bin(">", hast.Var("int"), hast.Num("50")), hast.Not(hast.Bool(false)), hast.Not(hast.Bool(true)), hast.Not(hast.Var("no"))}[r.Intn(7)]
	}
	c.Feature("inline:string")
	return []*hast.Expr{hast.Var("s"), hast.Var("pad"), hast.Var("uni"), hast.Var("empty"), hast.Str("lit #notag //nocomment <<nocmd>>"), hast.Bin("+", hast.Var("s"), hast.Str("}"))}[r.Intn(6)]
}

var c04Tags = []string{"tag", "line:0a1b2c", "étiquette", "a/b", "x}y", "weird//tag", "{t}", "日", "t-1", "a.b",
	// white space that does not end a tag (only blank, tab, line ends, #, $ and < do) is part of the tag
	"prix\u00a0", "\u3000wide", "a\u2003b", "\u00a0", "nel\u0085"}

func c04TagList(r *core.Rand) []string {
	var t []string
	for k := r.PickW(45, 30, 15, 10); k > 0; k-- {
		t = append(t, c04Tags[r.Intn(len(c04Tags))])
	}
	return t
}

func startsWithEscapedBracket(parts []hast.Part) bool {
	return len(parts) > 0 && parts[0].X == nil && (strings.HasPrefix(parts[0].Src, `\[`) || strings.HasPrefix(parts[0].Src, `\]`))
}

func (p c04) Run(c *core.Ctx) {
	r := c.R
	id := 0
	var body []*hast.Stmt
	var sources []string
	nontrivial := map[*hast.Stmt]bool{}
	mkLine := func(allowBracketFirst bool) ([]hast.Part, bool) {
		parts, cells := gen.LineText(r, func() *hast.Expr { return c04Expr(r, c) }, allowBracketFirst)
		nt := false
		for _, cell := range cells {
			c.Feature("cell:" + cell)
			if !strings.HasPrefix(cell, "interior:") && (strings.Contains(cell, "esc-") || strings.Contains(cell, "bare-")) {
				nt = true
			}
		}
		first, last := parts[0], parts[len(parts)-1]
		if first.X == nil && strings.TrimSpace(first.Out) != first.Out || last.X == nil && strings.TrimSpace(last.Out) != last.Out {
			c.Feature("surrounding-whitespace")
		}
		for _, pt := range parts {
			if pt.X != nil && (usesSpecial(pt.X, "frac") || usesSpecial(pt.X, "tiny") || usesSpecial(pt.X, "mid") || usesSpecial(pt.X, "large") || usesSpecial(pt.X, "e15") || usesSpecial(pt.X, "third")) {
				nt = true
			}
		}
		return parts, nt
	}
	for i := 0; i < 25; i++ {
		id++
		if r.Chance(1, 4) {
			st := &hast.Stmt{K: hast.SOptions, ID: id}
			k := r.Range(1, 5)
			if r.Chance(1, 25) {
				k = r.Range(9, 70) // more options than any fixed-size buffer
				c.Feature("large-option-group")
			}
			conds := 0
			for j := 0; j < k; j++ {
				parts, nt := mkLine(false)
				o := &hast.Option{Parts: parts, Tags: c04TagList(r)}
				mode := r.Intn(3) // 0: few conditions, 1: many, 2: all
				if mode == 2 || mode == 1 && r.Chance(2, 3) || mode == 0 && r.Chance(1, 6) {
					conds++
					switch r.Intn(7) {
					case 5:
						o.Cond = hast.Not(hast.Bool(false))
					case 6:
						o.Cond = hast.Not(hast.Bool(true))
					case 0:
						o.Cond = hast.Bool(true)
					case 1:
						o.Cond = hast.Bool(false)
					case 2:
						o.Cond = hast.Var([]string{"yes", "no"}[r.Intn(2)])
					case 3:
						o.Cond = hast.Not(hast.Var([]string{"yes", "no"}[r.Intn(2)]))
					default:
						o.Cond = hast.Bin(r.Pick("<", ">", "=="), hast.Var("int"), hast.Num(r.Pick("42", "10", "50")))
					}
				}
				if nt {
					nontrivial[st] = true
				}
				st.Options = append(st.Options, o)
				c.Feature("options")
				c.FeatureN("tags", len(o.Tags))
			}
			switch {
			case conds == 0:
				c.Feature("cond-subset:none")
			case conds == k:
				c.Feature("cond-subset:all")
			default:
				c.Feature("cond-subset:some")
				nontrivial[st] = true
			}
			c.Feature("option-groups")
			body = append(body, st)
			// a group must be followed by something else than a group
			id++
			body = append(body, &hast.Stmt{K: hast.SLine, Parts: []hast.Part{hast.Lit(fmt.Sprintf("sep%d", id))}, ID: id})
		} else {
			parts, nt := mkLine(false)
			if r.Chance(1, 40) {
				// a long line: 20-120 generated texts joined by a harmless separator (thousands of characters,
				// dozens of inline expressions)
				for k := r.Range(20, 700); k > 0; k-- {
					more, _ := mkLine(true)
					parts = append(parts, hast.Lit(" x "))
					parts = append(parts, more...)
				}
				c.Feature("long-line")
			}
			st := &hast.Stmt{K: hast.SLine, Parts: parts, Tags: c04TagList(r), ID: id}
			nontrivial[st] = nt
			c.Feature("lines")
			c.FeatureN("tags", len(st.Tags))
			body = append(body, st)
		}
	}
	// half of the scripts show the whole node a second time (same runner, same parsed tree): every line and
	// option must be rendered as written again
	// an option group in which a host function with a side effect on the store is called by one option and
	// the variable it writes is shown and tested by the others: every text and condition of a group is
	// evaluated once, in order, on the store as it is then
	{
		id++
		g := &hast.Stmt{K: hast.SOptions, ID: id, Options: []*hast.Option{
			{Parts: []hast.Part{hast.Lit("before "), hast.Inl(hast.Var("cnt"))}, Cond: hast.Bin("==", hast.Var("cnt"), hast.Num("0"))},
			{Parts: []hast.Part{hast.Lit("bump "), hast.Inl(hast.Call("bump"))}},
			{Parts: []hast.Part{hast.Lit("after "), hast.Inl(hast.Var("cnt"))}, Cond: hast.Bin("==", hast.Var("cnt"), hast.Num("0"))},
			{Parts: []hast.Part{hast.Lit("cond ")}, Cond: hast.Bin(">", hast.Call("bump"), hast.Num("100"))},
			{Parts: []hast.Part{hast.Lit("last "), hast.Inl(hast.Var("cnt"))}},
		}}
		at := r.Intn(len(body) + 1)
		for at > 0 && body[at-1].K == hast.SOptions || at < len(body) && body[at].K == hast.SOptions {
			at = (at + 1) % (len(body) + 1)
		}
		id++
		sep := &hast.Stmt{K: hast.SLine, Parts: []hast.Part{hast.Lit(fmt.Sprintf("sep%d", id))}, ID: id}
		body = append(body[:at:at], append([]*hast.Stmt{g, sep}, body[at:]...)...)
		c.Feature("option-group-with-a-side-effecting-function")
	}
	again := r.Bool()
	if again {
		// a line and an option that consist of one inline expression only, whose value differs at the second showing
		id++
		body = append(body, &hast.Stmt{K: hast.SLine, Parts: []hast.Part{hast.Inl(hast.Var("round"))}, ID: id})
		id++
		// ... and options whose conditions put a unary operator over that variable: true at one showing, false at the other
		body = append(body, &hast.Stmt{K: hast.SOptions, ID: id, Options: []*hast.Option{
			{Parts: []hast.Part{hast.Inl(hast.Bin("+", hast.Var("round"), hast.Num("10")))}},
			{Parts: []hast.Part{hast.Lit("neg")}, Cond: hast.Bin("<", hast.Neg(hast.Var("round")), hast.Num("0"))},
			{Parts: []hast.Part{hast.Lit("not")}, Cond: hast.Not(hast.Bin("==", hast.Var("round"), hast.Num("0")))},
			{Parts: []hast.Part{hast.Lit("notnot")}, Cond: hast.Bin("and", hast.Not(hast.Not(hast.Bin("==", hast.Var("round"), hast.Num("0")))), hast.Bool(true))},
		}})
		id++
		body = append(body, &hast.Stmt{K: hast.SLine, Parts: []hast.Part{hast.Lit(fmt.Sprintf("sep%d", id))}, ID: id})
		body = append(body, &hast.Stmt{K: hast.SIf, Clauses: []*hast.Clause{{
			Cond: hast.Bin("==", hast.Var("round"), hast.Num("0")),
			Body: []*hast.Stmt{{K: hast.SSet, Var: "round", Op: "=", X: hast.Num("1")}, {K: hast.SJump, Target: "Start"}},
		}}})
		c.Feature("node-shown-twice")
	}
	prog := &hast.Program{Readers: 1, Nodes: []*hast.Node{{Title: "Start", Body: body}}}
	lay := hast.L0()
	lay.R = r.Fork()
	lay.Trailing = 30
	lay.Stats = map[string]int{}
	scripts := hast.Render(prog, lay)
	for k, v := range lay.Stats {
		if strings.HasPrefix(k, "trailing-comment") {
			c.FeatureN("trailing-comments", v)
		}
	}
	_ = sources
	pair, err, pan := NewPair(prog, scripts, PairOpts{Pre: c04Pre, UseDefaultStore: true}, nil)
	if err != nil || pan != "" {
		c.Violate("a script of generated, syntactically valid lines failed to load", map[string]any{"readers": scripts, "error": fmt.Sprint(err), "panic": pan})
		return
	}
	// the host of one script in two writes into the tag slices of the elements it is handed (they are its values):
	// the next showing of the same line or option carries the tags the script gives it
	if r.Bool() {
		pair.R.Scribble = true
		c.Feature("host-overwrites-the-tags-of-returned-elements")
	}
	var choices []int
	for step := 0; step < 200; step++ {
		choice := 0
		if pair.M.Waiting() {
			choice = r.Intn(pair.M.NumOptions())
			choices = append(choices, choice)
		}
		want, got, diff := pair.Step(choice)
		c.Event(want.Kind.String(), 1)
		if diff != "" {
			c.Violate("a line or option is not rendered as written: "+diff, pair.Detail(choices, want, got, diff))
			return
		}
		if want.Kind == model.OOptions {
			for _, o := range want.Opts {
				if o.Disabled {
					c.Feature("disabled-options")
				}
			}
		}
		if want.Stmt != nil && nontrivial[want.Stmt] {
			c.Nontrivial(outcomeString(want), fmt.Sprint(want.Stmt.ID), scripts[0][:min(len(scripts[0]), 0)])
		}
		if want.Kind == model.OEnd || want.Kind == model.OErr {
			break
		}
	}
	// the host kept every element it was given (a transcript): none of them changed while later ones were rendered
	if d := pair.R.Recheck(); d != "" {
		c.Violate("a line or option group returned earlier changed while the dialogue went on: "+d, map[string]any{"readers": scripts, "choices": choices})
		return
	}
	c.FeatureN("returned-elements-rechecked-at-the-end", pair.R.KeptCount())
	if c.WantSample() {
		c.Sample(map[string]any{"script": scripts[0], "choices": choices, "trace": pair.Trace[:min(len(pair.Trace), 8)]})
	}

	// ---- string literals that contain escaped quotes (also as their LAST character): whether the value keeps
	// the backslashes is not settled by the property text, but both quote characters are part of it, and two
	// occurrences of the same literal are equal
	{
		inner := r.Pick("say \\\"hi\\\"", "\\\"", "x\\\"", "\\\"x", "a \\\"b\\\" c", "ends with \\\"")
		script := "title: Start\n---\nA {\"" + inner + "\"} B\n-> same <<if \"" + inner + "\" == \"" + inner + "\">>\n-> other <<if \"" + inner + "\" == \"" + inner + "z\">>\n===\n"
		qr, err, pan := mon.Create(nil, "", []string{script})
		if err != nil || pan != "" {
			c.Violate("a script with escaped quotes in string literals failed to load", map[string]any{"readers": []string{script}, "error": fmt.Sprint(err), "panic": pan})
			return
		}
		o := qr.Next(0)
		kept := "A " + strings.ReplaceAll(inner, "\\\\", "\\") + " B"
		unescaped := "A " + strings.ReplaceAll(inner, "\\\"", "\"") + " B"
		kept, unescaped = strings.ReplaceAll(kept, "\\\\", "\\"), strings.ReplaceAll(unescaped, "\\\\", "\\")
		if o.Kind != mon.KLine || (o.Text != kept && o.Text != unescaped) {
			c.Violate("a string literal with escaped quotes is not rendered with all its characters: "+o.String(), map[string]any{"readers": []string{script}, "accepted": []string{kept, unescaped}})
			return
		}
		g := qr.Next(0)
		if g.Kind != mon.KOptions || len(g.Opts) != 2 || g.Opts[0].Disabled || !g.Opts[1].Disabled {
			c.Violate("options conditioned on string literals with escaped quotes are not enabled / disabled as written: "+g.String(), map[string]any{"readers": []string{script}})
			return
		}
		c.Feature("string-literals-with-escaped-quotes")
	}

	// ---- a line that fails half-way through its text, followed by literal lines and options: whatever
	// the runner does after the error, a line or option it returns afterwards must be one of the
	// script's literal texts, unchanged (nothing of the failed line may leak into it)
	{
		lits := []string{}
		var eb []*hast.Stmt
		mk := func(prefix string) string {
			id++
			t := fmt.Sprintf("%s%d %s", prefix, id, r.Pick("plain", "wörld", "日本", "x > y", "100%"))
			lits = append(lits, t)
			return t
		}
		eb = append(eb, &hast.Stmt{K: hast.SLine, Parts: []hast.Part{hast.Lit(mk("before"))}})
		bad := []hast.Part{hast.Lit("Hello "), hast.Inl(hast.Var("s")), hast.Lit(", you own "), hast.Inl(hast.Var("nope")), hast.Lit(" coins")}
		if r.Bool() {
			eb = append(eb, &hast.Stmt{K: hast.SLine, Parts: bad})
		} else {
			eb = append(eb, &hast.Stmt{K: hast.SOptions, Options: []*hast.Option{{Parts: []hast.Part{hast.Lit("fine "), hast.Inl(hast.Var("int"))}}, {Parts: bad}}})
			eb = append(eb, &hast.Stmt{K: hast.SLine, Parts: []hast.Part{hast.Lit(mk("sep"))}})
		}
		eb = append(eb, &hast.Stmt{K: hast.SLine, Parts: []hast.Part{hast.Lit(mk("after"))}})
		eb = append(eb, &hast.Stmt{K: hast.SOptions, Options: []*hast.Option{{Parts: []hast.Part{hast.Lit(mk("opt"))}}, {Parts: []hast.Part{hast.Lit(mk("opt"))}}}})
		eb = append(eb, &hast.Stmt{K: hast.SLine, Parts: []hast.Part{hast.Lit(mk("last"))}})
		ep := &hast.Program{Readers: 1, Nodes: []*hast.Node{{Title: "Start", Body: eb}}}
		es := hast.Render(ep, hast.L0())
		er, err, pan := mon.Create(nil, "", es)
		if err != nil || pan != "" {
			c.Violate("a script with a failing inline expression failed to load", map[string]any{"readers": es, "error": fmt.Sprint(err), "panic": pan})
			return
		}
		known := map[string]bool{}
		for _, t := range lits {
			known[t] = true
		}
		sawErr := false
		var etrace []string
		for k := 0; k < 10; k++ {
			o := er.Next(0)
			etrace = append(etrace, o.String())
			if o.Kind == mon.KErr {
				sawErr = true
				continue
			}
			if o.Kind == mon.KPanic {
				c.Violate("Next panicked after a line failed half-way through its text", map[string]any{"readers": es, "trace": etrace})
				return
			}
			if o.Kind == mon.KEnd {
				break
			}
			texts := []string{o.Text}
			if o.Kind == mon.KOptions {
				texts = nil
				for _, x := range o.Opts {
					texts = append(texts, x.Text)
				}
			}
			for _, t := range texts {
				if !known[t] && !(strings.HasPrefix(t, "fine ") && !sawErr) && t != "fine 42" {
					c.Violate(fmt.Sprintf("after a line failed half-way through its text, a returned text is not one of the script's literal texts: %q", t), map[string]any{"readers": es, "trace": etrace})
					return
				}
			}
		}
		if sawErr {
			c.Feature("error-mid-line-then-literal-texts")
		}
	}

	// ---- K1 sub-workload: a text that begins with an escaped bracket
	parts, _ := gen.LineText(r, nil, true)
	parts[0] = hast.Part{Src: r.Pick(`\[`, `\]`), Out: "["}
	if parts[0].Src == `\]` {
		parts[0].Out = "]"
	}
	k1 := &hast.Program{Readers: 1, Nodes: []*hast.Node{{Title: "Start", Body: []*hast.Stmt{{K: hast.SLine, Parts: parts}}}}}
	if r.Bool() {
		k1.Nodes[0].Body = []*hast.Stmt{{K: hast.SOptions, Options: []*hast.Option{{Parts: parts}}}}
	}
	ks := hast.Render(k1, hast.L0())
	kp, err, pan := NewPair(k1, ks, PairOpts{}, nil)
	c.Feature("k1-lines")
	switch {
	case pan != "":
		c.Violate("loading a line that begins with an escaped bracket panicked", map[string]any{"readers": ks, "panic": pan})
	case err != nil:
		c.ViolateKnown("K1", "a line whose text begins with an escaped bracket is refused as a syntax error", map[string]any{"readers": ks, "error": err.Error()})
	default:
		want, got, diff := kp.Step(0)
		if diff != "" {
			c.Violate("a line that begins with an escaped bracket is not rendered as written: "+diff, kp.Detail(nil, want, got, diff))
		}
	}
}

// KnownRepro runs the reproducer of K1.
func (c04) KnownRepro(f core.KnownFinding) (bool, error) {
	for _, rep := range f.Reproducers {
		_, err, pan := mon.Create(nil, "", []string{rep})
		if pan != "" {
			return false, fmt.Errorf("reproducer panics instead of failing as recorded: %s", pan)
		}
		if err != nil {
			return true, nil
		}
	}
	return false, nil
}
