package props

import (
	"crypto/sha256"
	"encoding/json"
	"fmt"
	"github.com/remieven/ysgo/markup"
	"io"
	"math"
	"os"
	"os/exec"
	"runtime"
	"sort"
	"strconv"
	"strings"
	"time"

	ysgo "github.com/remieven/ysgo"

	"github.com/remieven/ysgo/variable"
	"github.com/remieven/ysgo/verifharness/core"
	"github.com/remieven/ysgo/verifharness/gen"
	"github.com/remieven/ysgo/verifharness/hast"
	"github.com/remieven/ysgo/verifharness/mon"
)

// C09 — same script, seed and choices give the same run; random built-ins stay in range.
type c09 struct{}

func init() {
	core.Register(c09{})
	auxCommands["c09exec"] = c09Aux
}

func (c09) ID() string { return "C09" }

// EvalFeatures names the counters of judged executions.
func (c09) EvalFeatures() []string {
	return []string{"executions-in-process", "executions-in-fresh-processes"}
}

func (c09) Cases(tier string) int {
	if tier == "thorough" {
		return 30000
	}
	return 1600
}

func (c09) Chunk(tier string) int {
	if tier == "thorough" {
		return 500
	}
	return 50
}

func (c09) Thresholds(tier string) map[string]int64 {
	return map[string]int64{
		"cases":                                              1500,
		"executions-in-process":                              4500,
		"executions-in-fresh-processes":                      4500,
		"fresh-processes-spawned":                            90,
		"unrelated-runners-run-before":                       5000,
		"traces-with>=3-draw-sites":                          500,
		"seed:long-overflowing":                              150,
		"seed:all-zeros":                                     60,
		"seed:single-character":                              60,
		"range-draws:dice":                                   30000,
		"range-draws:random_range":                           30000,
		"range-draws:random":                                 15000,
		"range-draws-with-bounds-that-change-between-passes": 20000,
		"runs-compared-with-slow-host-functions":             16,
		"range:dice(1)":                                      1000,
		"range:a==b":                                         1000,
		"range:negative-lower-bound":                         5000,
		"range:span>=2^31":                                   1000,
		"range-draws-with-empty-seed":                        10000,
		"draw-hit-lower-bound":                               2000,
		"draw-hit-upper-bound":                               2000,
		"range:bounds-at-the-edge-of-the-integer-range":      5000,
		"range:edge-bounds-refused":                          500,
		"range:edge-bounds-drawn":                            500,
		"range:fractional-upper-bound":                       1000,
		"program-with-a-non-string-jump":                     50,
		"runners-created-while-another-was-alive":            1500,
		"extreme-search:draws-walked":                        500000000,
		"extreme-draws-driven-through-the-runner":            150,
		"extreme-draws-reproduced-by-the-runner":             150,
		"extreme-draws>=1-2^-25":                             15,
	}
}

func (c09) Rule() string {
	return "case = one generated program that uses dice, random and random_range in lines, if conditions, option conditions, set statements and computed jump targets (bounds up to 9*10^15, so spans beyond 2^31 and 2^32 occur), one program in three with a line that fails on an unknown variable (error texts are part of the digest), one seed over [0-9a-z] (lengths 1-40: single characters, all zeros, long seeds that overflow the base-36 accumulation) and one PRNG choice policy. The case is executed: twice in-process back to back; once more in-process after 1-20 unrelated runners (other seeds, the empty seed) were created and stepped; and in 3 fresh processes per chunk of cases (GOMAXPROCS 1 / 4 / 16, executing the chunk forwards, backwards and shuffled, so that 'what ran before' differs). Oracle: all executions have the same SHA-256 digest over every element (node, text, tags, attribute list, options and flags), every error text and the final GetValues(). Range sub-workload per case: 70 captured draws with bounds incl. dice(1), a == b, negative bounds and spans up to 2^31, with the case's seed or the empty seed: dice(n) is an integer in [1,n], random_range(a,b) an integer in [a,b], random() in [0,1). Also per case: one call site of each built-in whose bounds are compound expressions over variables ($n * 1, $lo + 0 ...), run six times by the same runner while the host changes the variables between passes (every draw within the bounds of its pass). One case per chunk runs a 60-round loop twice, with host functions that answer at once and with host functions that take 25 ms each (1.5 s inside one Next): same run. Half of the executions (decided by the choice policy) load a save in mid-run: the runner's snapshot rebuilt field by field from its three documented fields and restored into the running dialogue; the draws that follow belong to the digest. Non-trivial: the trace has >=3 random draw sites and the program branches on a draw. Distinct by hash of scripts+seed+choice policy. Each execution is also repeated with other runners created (and partly driven) between its creation and its steps. One case per chunk aims at the bounds of random(): the harness walks the generator (internal/rng) over 48 million draws of PRNG seeds, keeps the 10 draws closest to 1 and the 3 closest to 0, and makes the real runner produce exactly those draws (a script calling random() k+1 times under that seed); every value returned through the runner must be in [0,1). One program in fifteen contains a jump whose destination is a number, boolean or draw (error texts are part of the digest)."
}

func (c09) Assumptions() []string {
	return []string{
		"error texts are compared between executions of the same build (never with an expected string)",
		"the number of draw sites is counted statically on the generated program; which of them a path executes is not known to the harness",
		"with an empty seed only ranges are checked (the runner draws its own seed)",
	}
}

type c09Item struct {
	Idx        int      `json:"idx"`
	Scripts    []string `json:"scripts"`
	Seed       string   `json:"seed"`
	ChoiceSeed uint64   `json:"choice_seed"`
	Digest     string   `json:"digest"`
	Summary    string   `json:"summary"`
	// used by C18 only
	Tag     string `json:"tag,omitempty"`     // the words the "later" command must receive
	Restore bool   `json:"restore,omitempty"` // the runner is first restored from a snapshot of its start node
}

// execOpts are the extras C18 adds to an execution.
type execOpts struct {
	tag     string
	restore *ysgo.Snapshot
	// gate, when set, makes the first reader block in its first Read until the channel is closed
	gate <-chan struct{}
}

// gatedReader delivers its content only once the gate is open.
type gatedReader struct {
	r    io.Reader
	gate <-chan struct{}
}

func (g *gatedReader) Read(p []byte) (int, error) {
	<-g.gate
	return g.r.Read(p)
}

var c09Batch []c09Item

// c09Exec runs one execution and returns its digest and a short human-readable summary.
func c09Exec(scripts []string, seed string, choiceSeed uint64) (string, string) {
	return c09ExecHooked(scripts, seed, choiceSeed, nil)
}

// c09ExecHooked calls hook(step) after the runner was created (step 0) and after every Next.
func c09ExecHooked(scripts []string, seed string, choiceSeed uint64, hook func(step int)) (string, string) {
	return c09ExecOpts(scripts, seed, choiceSeed, hook, execOpts{})
}

func c09ExecOpts(scripts []string, seed string, choiceSeed uint64, hook func(step int), eo execOpts) (string, string) {
	st := mon.NewRecStorer()
	var rr *mon.Real
	var err error
	var pan string
	if eo.gate != nil {
		readers := make([]io.Reader, len(scripts))
		for i, s := range scripts {
			readers[i] = strings.NewReader(s)
		}
		readers[0] = &gatedReader{r: readers[0], gate: eo.gate}
		rr, err, pan = mon.CreateFrom(st, seed, readers)
	} else {
		rr, err, pan = mon.Create(st, seed, scripts)
	}
	if pan != "" {
		return "panic-at-creation", pan
	}
	if err != nil {
		return "error-at-creation:" + err.Error(), err.Error()
	}
	null := &mon.HostLog{}
	rr.Install(mon.FlowFuncs(null), mon.FlowCmds(null))
	if eo.tag != "" {
		// a raw command handler that looks at its arguments LATER, from a goroutine of its own (it may keep
		// them until it reports completion): they must still be the words written in this runner's script
		tag := eo.tag
		rr.DR.AddCommand("later", func(args []*variable.Value) <-chan error {
			ch := make(chan error, 1)
			go func() {
				runtime.Gosched()
				time.Sleep(30 * time.Microsecond)
				if len(args) != 3 {
					ch <- fmt.Errorf("later: %d arguments, want 3", len(args))
					return
				}
				for _, a := range args {
					if a == nil || a.String == nil || *a.String != tag {
						ch <- fmt.Errorf("later: an argument is not the word %s written in the script", tag)
						return
					}
				}
				ch <- nil
			}()
			return ch
		})
	}
	if eo.restore != nil {
		if err := rr.RestoreAt(eo.restore); err != nil {
			return "restore-failed:" + err.Error(), err.Error()
		}
	}
	if hook != nil {
		hook(0)
	}
	cr := core.NewRand(choiceSeed)
	h := sha256.New()
	var sum []string
	errors := 0
	arg := 0
	for step := 0; step < 200; step++ {
		o := rr.Next(arg)
		if hook != nil {
			hook(step + 1)
		}
		arg = int(cr.U64() % 7)
		line := o.String()
		if o.Kind == mon.KLine {
			line += fmt.Sprintf(" attrs=%v", o.Attrs)
		}
		if o.Kind == mon.KOptions {
			arg = cr.Intn(len(o.Opts))
			for _, x := range o.Opts {
				line += fmt.Sprintf(" attrs=%v", x.Attrs)
			}
		}
		if o.Kind == mon.KPanic {
			line = "PANIC " + strings.SplitN(o.Panic, "\n", 2)[0]
		}
		h.Write([]byte(line + "\n"))
		if len(sum) < 12 {
			sum = append(sum, line)
		}
		if eo.tag != "" {
			// the element is the host's now: it may write into it (attribute properties are plain maps)
			// without any other runner ever seeing that
			scribble(o, eo.tag)
		}
		if o.Kind == mon.KEnd || o.Kind == mon.KPanic {
			break
		}
		if choiceSeed%2 == 0 && step == int(choiceSeed/2%7) && (o.Kind == mon.KLine || o.Kind == mon.KOptions) {
			// the host loads a save in mid-run: a snapshot rebuilt field by field from the three documented fields
			// (what a save-file decoder produces), restored into the running dialogue - part of the execution like
			// any choice, so every execution of the case does it at the same step
			s := rr.DR.Snapshot()
			if err := rr.RestoreAt(&ysgo.Snapshot{CurrentNode: s.CurrentNode, Variables: s.Variables, VisitedNodes: s.VisitedNodes}); err != nil {
				h.Write([]byte("restore failed: " + err.Error() + "\n"))
			} else {
				h.Write([]byte("restored at " + s.CurrentNode + "\n"))
			}
			arg = 0
		}
		if o.Kind == mon.KErr {
			errors++
			if errors >= 3 {
				break
			}
		}
	}
	// the final variable contents
	var vs []string
	for k, v := range st.Vals() {
		vs = append(vs, k+"="+v.String())
	}
	sort.Strings(vs)
	h.Write([]byte(strings.Join(vs, ";")))
	return fmt.Sprintf("%x", h.Sum(nil))[:32], strings.Join(sum, " | ")
}

func c09Seed(c *core.Ctx) string {
	r := c.R
	const alpha = "0123456789abcdefghijklmnopqrstuvwxyz"
	mk := func(n int) string {
		var b strings.Builder
		for i := 0; i < n; i++ {
			b.WriteByte(alpha[r.Intn(36)])
		}
		return b.String()
	}
	switch r.Intn(8) {
	case 0:
		c.Feature("seed:single-character")
		return mk(1)
	case 1:
		c.Feature("seed:all-zeros")
		return strings.Repeat("0", r.Range(1, 20))
	case 2, 3:
		c.Feature("seed:long-overflowing")
		s := mk(r.Range(13, 40))
		if r.Chance(1, 4) {
			s += strings.Repeat("0", 32) // 36^32 is a multiple of 2^64
		}
		return s
	}
	return mk(r.Range(2, 12))
}

func countDrawSites(p *hast.Program) (sites int, branching bool) {
	var ex func(e *hast.Expr) int
	ex = func(e *hast.Expr) int {
		if e == nil {
			return 0
		}
		n := 0
		if e.K == hast.ECall && (e.Text == "dice" || e.Text == "random" || e.Text == "random_range") {
			n++
		}
		for _, a := range e.Args {
			n += ex(a)
		}
		return n
	}
	for _, nd := range p.Nodes {
		hast.Walk(nd.Body, 0, func(s *hast.Stmt, _ int) {
			for _, pt := range s.Parts {
				sites += ex(pt.X)
			}
			sites += ex(s.X)
			for _, cl := range s.Clauses {
				if k := ex(cl.Cond); k > 0 {
					sites += k
					branching = true
				}
			}
			for _, o := range s.Options {
				for _, pt := range o.Parts {
					sites += ex(pt.X)
				}
				sites += ex(o.Cond)
			}
			if s.K == hast.SJump && ex(s.X) > 0 {
				branching = true
			}
			for _, a := range s.Args {
				sites += ex(a.X)
			}
		})
	}
	return
}

func (p c09) Run(c *core.Ctx) {
	r := c.R
	cfg := gen.DefaultFlow()
	cfg.Random = true
	cfg.Probes = false
	cfg.MaxNodes = 5
	cfg.WJump = 10
	cfg.Tracking = false
	cfg.Unicode = false
	prog := gen.Flow(r, cfg)
	{
		// calls whose arguments each draw: the order of the draws is the order of the arguments, every time
		b := &prog.Nodes[0].Body
		at := r.Range(min(8, len(*b)), len(*b))
		two := &hast.Stmt{K: hast.SLine, Parts: []hast.Part{hast.Lit("two draws "),
			hast.Inl(hast.Call("random_range", hast.Call("dice", hast.Num("1000")), hast.Bin("+", hast.Num("1000"), hast.Call("dice", hast.Num("1000"))))), hast.Lit(" "),
			hast.Inl(hast.Call("round_places", hast.Call("random"), hast.Call("dice", hast.Num("6")))), hast.Lit(" "),
			hast.Inl(hast.Call("random_range", hast.Call("random_range", hast.Num("1"), hast.Num("500")), hast.Call("random_range", hast.Num("500"), hast.Num("100000"))))}}
		nb := append([]*hast.Stmt{}, (*b)[:at]...)
		nb = append(nb, two)
		*b = append(nb, (*b)[at:]...)
		c.Feature("calls-whose-arguments-each-draw")
	}
	if r.Chance(1, 3) {
		// a line that fails (unknown variable) somewhere in the start node: error texts are part of the
		// digest, and the run goes on after the error
		b := &prog.Nodes[0].Body
		at := r.Range(min(8, len(*b)), len(*b))
		bad := &hast.Stmt{K: hast.SLine, Parts: []hast.Part{hast.Lit("oops "), hast.Inl(hast.Var(r.Pick("undefined_var", "nope")))}}
		switch r.Intn(5) {
		case 0:
			// a jump whose destination is not a string (a draw, a number, a boolean): the error text
			// must be the same in every execution
			bad = &hast.Stmt{K: hast.SJump, X: []*hast.Expr{hast.Call("dice", hast.Num("6")), hast.Num("3"), hast.Bool(true), hast.Call("random")}[r.Intn(4)]}
			c.Feature("program-with-a-non-string-jump")
		case 1:
			bad = &hast.Stmt{K: hast.SCommand, Name: "nosuchcommand", Args: []hast.CmdArg{{X: hast.Call("dice", hast.Num("20"))}}}
		case 2:
			bad = &hast.Stmt{K: hast.SSet, Var: "fuel", Op: "=", X: hast.Str("text")}
		}
		nb := append([]*hast.Stmt{}, (*b)[:at]...)
		nb = append(nb, bad)
		*b = append(nb, (*b)[at:]...)
		c.Feature("program-with-a-failing-line")
	}
	scripts := hast.Render(prog, hast.L0())
	seed := c09Seed(c)
	choiceSeed := r.U64()
	sites, branching := countDrawSites(prog)
	c.Feature("cases")
	if sites >= 3 {
		c.Feature("traces-with>=3-draw-sites")
	}
	d1, s1 := c09Exec(scripts, seed, choiceSeed)
	d2, _ := c09Exec(scripts, seed, choiceSeed)
	c.FeatureN("executions-in-process", 2)
	detail := func(extra map[string]any) map[string]any {
		d := map[string]any{"readers": scripts, "seed": seed, "choice_seed": choiceSeed, "first_execution": s1}
		for k, v := range extra {
			d[k] = v
		}
		return d
	}
	if strings.HasPrefix(d1, "panic") || strings.HasPrefix(d1, "error-at-creation") {
		c.Violate("a generated program with a valid seed could not be created: "+s1, detail(nil))
		return
	}
	if d1 != d2 {
		_, s2 := c09Exec(scripts, seed, choiceSeed)
		c.Violate("two executions of the same script, seed and choices differ (same process, back to back)", detail(map[string]any{"another_execution": s2}))
		return
	}
	// unrelated runners in between
	n := r.Range(1, 20)
	for i := 0; i < n; i++ {
		other := []string{"", "x", "zz9", "0", seed + "1"}[r.Intn(5)]
		c09Exec(scripts, other, r.U64())
		c.Feature("unrelated-runners-run-before")
	}
	d3, s3 := c09Exec(scripts, seed, choiceSeed)
	c.Feature("executions-in-process")
	if d1 != d3 {
		c.Violate("an execution differs after unrelated runners (other seeds, empty seed) ran in the same process", detail(map[string]any{"execution_after_unrelated_runners": s3}))
		return
	}
	p.interleaved(c, scripts, seed, choiceSeed, d1, s1)
	if c.Failed() {
		return
	}
	if sites >= 3 && branching {
		c.Nontrivial(strings.Join(scripts, "\x00"), seed, fmt.Sprint(choiceSeed))
	}
	if c.WantSample() && sites >= 4 && branching {
		c.Sample(map[string]any{"readers": scripts, "seed": seed, "digest": d1, "execution": s1})
	}
	c09Batch = append(c09Batch, c09Item{Idx: c.Idx, Scripts: scripts, Seed: seed, ChoiceSeed: choiceSeed, Digest: d1, Summary: s1})
	p.ranges(c, seed)
	if !c.Failed() {
		p.movingBounds(c, seed)
	}
	if c.Idx%50 == 7 && !c.Failed() {
		p.extremes(c)
	}
	if c.Idx%50 == 9 && !c.Failed() {
		p.hostLatency(c, seed)
	}
}

// hostLatency: the same script, seed and choices give the same run whether the host's functions answer at once or
// take their time (60 calls of 25 ms inside one Next: a second and a half without an element).
func (c09) hostLatency(c *core.Ctx, seed string) {
	script := "title: Start\n---\n<<set $i to 0>>\n<<set $acc to 0>>\n<<jump Loop>>\n===\ntitle: Loop\n---\n<<call slow($i)>>\n<<set $acc to $acc + dice(6)>>\n<<set $i to $i + 1>>\n<<if $i < 60>>\n<<jump Loop>>\n<<endif>>\ndone {$i} {$acc} {random_range(1, 1000)}\n-> a\n-> b\nlast {dice(100)}\n===\n"
	run := func(delay time.Duration) string {
		rr, err, pan := mon.Create(nil, seed, []string{script})
		if err != nil || pan != "" {
			return "creation failed: " + fmt.Sprint(err) + pan
		}
		rr.DR.AddFunction("slow", func([]*variable.Value) (*variable.Value, error) {
			if delay > 0 {
				time.Sleep(delay)
			}
			return nil, nil
		})
		var out []string
		for i := 0; i < 8; i++ {
			o := rr.Next(1)
			out = append(out, o.String())
			if o.Kind == mon.KEnd {
				break
			}
		}
		return strings.Join(out, " | ")
	}
	fast, slow := run(0), run(25*time.Millisecond)
	if fast != slow {
		c.Violate("the same script, seed and choices give another run when the host's functions take their time", map[string]any{
			"readers": []string{script}, "seed": seed, "with_immediate_host_functions": fast, "with_host_functions_that_take_25ms": slow})
		return
	}
	c.Feature("runs-compared-with-slow-host-functions")
}

// movingBounds: one call site of each random built-in whose bounds are compound expressions over variables, run
// six times by the same runner while the host changes the variables between the passes: every draw lies within
// the bounds as they evaluate at that pass.
func (c09) movingBounds(c *core.Ctx, seed string) {
	r := c.R
	script := "title: Start\n---\n<<call capb(dice($n * 1), random_range($lo + 0, $hi - 0), dice(0 + $n), random_range(-$hi, -$lo), dice(integer($n)), random_range($lo, $lo))>>\n<<set $pass to $pass + 1>>\n<<if $pass < 6>>\n<<jump Start>>\n<<endif>>\ndone\n===\n"
	st := variable.NewInMemoryStorer()
	ns := []float64{float64(r.Range(500, 100000)), 2, float64(r.Range(3, 60)), 1, float64(r.Range(2, 9)), 3}
	los := []float64{-float64(r.Range(100, 9000)), 5, -2, float64(r.Range(10, 20)), 0, -1}
	spans := []float64{float64(r.Range(1000, 50000)), 1, 0, 3, float64(r.Range(1, 6)), 2}
	pass := 0
	load := func() {
		st.SetNumberValue("n", ns[pass])
		st.SetNumberValue("lo", los[pass])
		st.SetNumberValue("hi", los[pass]+spans[pass])
	}
	st.SetNumberValue("pass", 0)
	load()
	rr, err, pan := mon.Create(st, seed, []string{script})
	if err != nil || pan != "" {
		c.Violate("the moving-bounds script could not be created", map[string]any{"readers": []string{script}, "seed": seed, "error": fmt.Sprint(err), "panic": pan})
		return
	}
	bad := ""
	rr.DR.AddFunction("capb", func(a []*variable.Value) (*variable.Value, error) {
		if bad != "" || pass >= len(ns) {
			return nil, nil
		}
		n, lo, hi := ns[pass], los[pass], los[pass]+spans[pass]
		want := [][2]float64{{1, n}, {lo, hi}, {1, n}, {-hi, -lo}, {1, n}, {lo, lo}}
		for i, w := range want {
			if i >= len(a) || a[i] == nil || a[i].Number == nil {
				bad = fmt.Sprintf("pass %d: draw %d is not a number", pass+1, i)
				break
			}
			if v := *a[i].Number; v != math.Trunc(v) || v < w[0] || v > w[1] {
				bad = fmt.Sprintf("pass %d ($n = %v, $lo = %v, $hi = %v): draw %d returned %v, outside [%v,%v]", pass+1, n, lo, hi, i, v, w[0], w[1])
				break
			}
			c.Feature("range-draws-with-bounds-that-change-between-passes")
		}
		pass++
		if pass < len(ns) {
			load() // the host changes the bounds for the next pass
		}
		return nil, nil
	})
	o := rr.Next(0)
	if bad == "" && (o.Kind != mon.KLine || o.Text != "done" || pass != 6) {
		bad = fmt.Sprintf("the script did not run its six passes (passes %d, result %s)", pass, o)
	}
	if bad != "" {
		c.Violate("a random built-in whose bounds are expressions over variables, evaluated again by the same runner: "+bad, map[string]any{"readers": []string{script}, "seed": seed})
	}
}

// ranges: captured draws with hostile bounds.
func (c09) ranges(c *core.Ctx, seed string) {
	r := c.R
	if r.Chance(1, 3) {
		seed = ""
	}
	type draw struct {
		fn   string
		a, b int64
	}
	var draws []draw
	var b strings.Builder
	b.WriteString("title: Start\n---\n")
	num := func(v int64) string {
		if v < 0 {
			return "-" + strconv.FormatInt(-v, 10)
		}
		return strconv.FormatInt(v, 10)
	}
	for i := 0; i < 70; i++ {
		switch r.Intn(5) {
		case 0, 1:
			n := []int64{1, 1, 2, 3, 6, 20, 100, 1 << 20, 1<<31 - 1, 1 << 31, 1 << 40}[r.Intn(11)]
			draws = append(draws, draw{"dice", 1, n})
			fmt.Fprintf(&b, "<<call cap(%d, dice(%d))>>\n", i, n)
			if n == 1 {
				c.Feature("range:dice(1)")
			}
			if n >= 1<<31 {
				c.Feature("range:span>=2^31")
			}
		case 2, 3:
			lo := []int64{0, 1, -1, -5, 7, -100, -(1 << 31), 1 << 31, -(1 << 40)}[r.Intn(9)]
			span := []int64{0, 0, 1, 2, 5, 9, 100, 1 << 31, 1 << 32}[r.Intn(9)]
			draws = append(draws, draw{"random_range", lo, lo + span})
			fmt.Fprintf(&b, "<<call cap(%d, random_range(%s, %s))>>\n", i, num(lo), num(lo+span))
			if span == 0 {
				c.Feature("range:a==b")
			}
			if lo < 0 {
				c.Feature("range:negative-lower-bound")
			}
			if span >= 1<<31 {
				c.Feature("range:span>=2^31")
			}
		default:
			draws = append(draws, draw{"random", 0, 1})
			fmt.Fprintf(&b, "<<call cap(%d, random())>>\n", i)
		}
	}
	b.WriteString("done\n===\n")
	script := b.String()
	rr, err, pan := mon.Create(nil, seed, []string{script})
	if err != nil || pan != "" {
		c.Violate("the range script could not be created", map[string]any{"readers": []string{script}, "seed": seed, "error": fmt.Sprint(err), "panic": pan})
		return
	}
	got := map[int]float64{}
	typed := map[int]bool{}
	rr.DR.AddFunction("cap", func(a []*variable.Value) (*variable.Value, error) {
		if len(a) == 2 && a[0] != nil && a[0].Number != nil && a[1] != nil && a[1].Number != nil {
			got[int(*a[0].Number)] = *a[1].Number
			typed[int(*a[0].Number)] = true
		}
		return nil, nil
	})
	o := rr.Next(0)
	if o.Kind != mon.KLine {
		c.Violate("in-domain calls of the random built-ins did not all succeed: "+o.String(), map[string]any{"readers": []string{script}, "seed": seed})
		return
	}
	for i, d := range draws {
		v, ok := got[i]
		c.Feature("range-draws:" + d.fn)
		if seed == "" {
			c.Feature("range-draws-with-empty-seed")
		}
		bad := ""
		switch {
		case !ok || !typed[i]:
			bad = "result is not a number"
		case d.fn == "random":
			if !(v >= 0 && v < 1) {
				bad = "random() outside [0,1)"
			}
		default:
			if v != math.Trunc(v) {
				bad = "result is not an integer"
			} else if v < float64(d.a) || v > float64(d.b) {
				bad = fmt.Sprintf("result outside [%d,%d]", d.a, d.b)
			}
			if v == float64(d.a) {
				c.Feature("draw-hit-lower-bound")
			}
			if v == float64(d.b) {
				c.Feature("draw-hit-upper-bound")
			}
		}
		if bad != "" {
			c.Violate(fmt.Sprintf("%s with bounds (%d,%d) and seed %q returned %v: %s", d.fn, d.a, d.b, seed, v, bad), map[string]any{"readers": []string{script}, "seed": seed, "draw": i})
			return
		}
	}
	// ---- bounds at the edge of the integer range (2^63 and its neighbours as doubles): a call may be
	// refused, but a value it returns lies within the bounds as written
	edge := []string{"9223372036854775807", "-9223372036854775808", "9223372036854775806", "4611686018427387904", "-4611686018427387904",
		"9223372036854774784", "-9223372036854774784", "10000000000000000000", "-10000000000000000000", "0", "1", "-1"}
	// fractional UPPER bounds (the lower one stays integral): refused, or a draw that still lies within the bounds
	// as written - dice(2.5) is 1 or 2, dice(0.5) has no possible result
	fractional := []string{"2.5", "0.5", "1.9", "6.5", "2.9999999999999996", "0.9999999999999999", "1.5"}
	for k := 0; k < 4; k++ {
		a, b := edge[r.Intn(len(edge))], edge[r.Intn(len(edge))]
		call := "random_range(" + a + ", " + b + ")"
		fa, _ := strconv.ParseFloat(a, 64)
		fb, _ := strconv.ParseFloat(b, 64)
		if r.Chance(1, 4) {
			call, fa, fb = "dice("+b+")", 1, fb
		} else if r.Chance(1, 3) {
			call, fb = "random_range("+a+", "+a+")", fa
		} else if r.Chance(1, 2) {
			f := fractional[r.Intn(len(fractional))]
			lo := r.Pick("0", "1", "-1", "-3")
			call = "random_range(" + lo + ", " + f + ")"
			fa, _ = strconv.ParseFloat(lo, 64)
			fb, _ = strconv.ParseFloat(f, 64)
			if r.Bool() {
				call, fa = "dice("+f+")", 1
			}
			c.Feature("range:fractional-upper-bound")
		}
		es := "title: Start\n---\n<<call cap(1, " + call + ")>>\ndone\n===\n"
		er, err, pan := mon.Create(nil, seed, []string{es})
		if err != nil || pan != "" {
			c.Violate("the edge-bounds script could not be created", map[string]any{"readers": []string{es}, "error": fmt.Sprint(err), "panic": pan})
			return
		}
		var val *float64
		er.DR.AddFunction("cap", func(a []*variable.Value) (*variable.Value, error) {
			if len(a) == 2 && a[1] != nil && a[1].Number != nil {
				v := *a[1].Number
				val = &v
			}
			return nil, nil
		})
		o := er.Next(0)
		c.Feature("range:bounds-at-the-edge-of-the-integer-range")
		switch {
		case o.Kind == mon.KPanic:
			c.Violate(call+" panicked", map[string]any{"readers": []string{es}, "panic": o.Panic})
			return
		case o.Kind == mon.KErr:
			c.Feature("range:edge-bounds-refused")
		case val == nil:
			c.Violate(call+" neither failed nor returned a number: "+o.String(), map[string]any{"readers": []string{es}})
			return
		case *val != math.Trunc(*val) || *val < fa || *val > fb:
			c.Violate(fmt.Sprintf("%s returned %v, outside the bounds as written", call, *val), map[string]any{"readers": []string{es}, "seed": seed})
			return
		default:
			c.Feature("range:edge-bounds-drawn")
		}
	}
}

// Flush executes the chunk's cases in 3 fresh processes and compares digests.
func (c09) Flush(c *core.Ctx) {
	batch := c09Batch
	c09Batch = nil
	if len(batch) == 0 {
		return
	}
	f, err := os.CreateTemp("", "c09-batch-*.json")
	if err != nil {
		c.Inconclusive("cannot write batch file: " + err.Error())
		return
	}
	defer os.Remove(f.Name())
	json.NewEncoder(f).Encode(batch)
	f.Close()
	self, _ := os.Executable()
	for i, cfg := range [][2]string{{"1", "forward"}, {"4", "reverse"}, {"16", "shuffle"}} {
		cmd := exec.Command(self, "aux", "c09exec", f.Name(), cfg[1])
		cmd.Env = append(os.Environ(), "GOMAXPROCS="+cfg[0])
		out, err := cmd.Output()
		c.Feature("fresh-processes-spawned")
		if err != nil {
			stderr := ""
			if ee, ok := err.(*exec.ExitError); ok {
				stderr = string(ee.Stderr)
			}
			if strings.Contains(stderr, "github.com/remieven/ysgo") && !strings.Contains(stderr, "verifharness/props.c09Aux") {
				c.Violate("a fresh process executing the chunk's cases died", map[string]any{"stderr": tailStr(stderr, 4000)})
			} else {
				c.Inconclusive(fmt.Sprintf("fresh process %d failed: %v %s", i, err, tailStr(stderr, 500)))
			}
			return
		}
		var res map[string][2]string
		if err := json.Unmarshal(out, &res); err != nil {
			c.Inconclusive("fresh process output unreadable: " + err.Error())
			return
		}
		for _, it := range batch {
			got, ok := res[strconv.Itoa(it.Idx)]
			c.Feature("executions-in-fresh-processes")
			if !ok {
				c.Inconclusive(fmt.Sprintf("fresh process did not report case %d", it.Idx))
				return
			}
			if got[0] != it.Digest {
				saved := c.Idx
				c.Idx = it.Idx
				c.Violate("the same script, seed and choices give a different run in a fresh process", map[string]any{
					"readers": it.Scripts, "seed": it.Seed, "choice_seed": it.ChoiceSeed, "execution_in_the_first_process": it.Summary, "execution_in_a_fresh_process": got[1],
					"fresh_process": fmt.Sprintf("GOMAXPROCS=%s, chunk executed %s", cfg[0], cfg[1])})
				c.Idx = saved
				return
			}
		}
	}
}

func tailStr(s string, n int) string {
	if len(s) <= n {
		return s
	}
	return s[len(s)-n:]
}

// c09Aux: `vcheck aux c09exec <batchfile> <order>` — executes the cases of a batch in a fresh process.
func c09Aux(args []string) int {
	if len(args) != 2 {
		return 64
	}
	b, err := os.ReadFile(args[0])
	if err != nil {
		fmt.Fprintln(os.Stderr, err)
		return 66
	}
	var batch []c09Item
	if err := json.Unmarshal(b, &batch); err != nil {
		fmt.Fprintln(os.Stderr, err)
		return 65
	}
	switch args[1] {
	case "reverse":
		sort.Slice(batch, func(i, j int) bool { return batch[i].Idx > batch[j].Idx })
	case "shuffle":
		r := core.NewRand(uint64(len(batch))*977 + 5)
		for i := len(batch) - 1; i > 0; i-- {
			j := r.Intn(i + 1)
			batch[i], batch[j] = batch[j], batch[i]
		}
	}
	out := map[string][2]string{}
	for _, it := range batch {
		eo := execOpts{tag: it.Tag}
		if it.Restore {
			eo.restore = startSnapshot()
		}
		d, s := c09ExecOpts(it.Scripts, it.Seed, it.ChoiceSeed, nil, eo)
		out[strconv.Itoa(it.Idx)] = [2]string{d, s}
	}
	json.NewEncoder(os.Stdout).Encode(out)
	return 0
}

// startSnapshot is a snapshot of the start node of a C18 program (its nodes are called N1, N2, …).
func startSnapshot() *ysgo.Snapshot {
	// like a save file that lists every node: counts of 0 for nodes never left, and a name that is no node
	return &ysgo.Snapshot{CurrentNode: "N1", Variables: map[string]variable.Value{}, VisitedNodes: map[string]int{"N1": 0, "N2": 0, "N3": 0, "N4": 0, "Elsewhere": 0}}
}

// scribble writes a property of its own into every attribute of a returned element.
func scribble(o mon.Obs, tag string) {
	mark := func(as []markup.Attribute) {
		for _, a := range as {
			if a.Properties != nil {
				a.Properties["scribbled-by-"+tag] = markup.Value{StringValue: tag, ValueType: markup.ValueTypeString}
			}
		}
	}
	mark(o.Attrs)
	for _, x := range o.Opts {
		mark(x.Attrs)
	}
}
