package props

import (
	"errors"
	"fmt"
	"math"
	"reflect"
	"runtime/debug"
	"strings"

	"github.com/remieven/ysgo/verifharness/core"
	"github.com/remieven/ysgo/verifharness/model"
	"github.com/remieven/ysgo/verifharness/mon"
)

// C16 — converted host functions/commands: accepted means callable without panics.
type c16 struct{}

func init() { core.Register(c16{}) }

func (c16) ID() string { return "C16" }

// EvalFeatures names the counters of judged executions.
func (c16) EvalFeatures() []string { return []string{"script-side-calls", "signatures"} }

type MyInt int
type MyInt8 int8
type MyFloat float64
type MyBool bool
type MyString string
type MyStruct struct{ A int }
type MyErr struct{ Code int }
type MyErrChan chan error

func (e MyErr) Error() string { return fmt.Sprintf("MyErr(%d)", e.Code) }

type tdesc struct {
	name  string
	t     reflect.Type
	class string // "int", "float", "bool", "string", "uint", "none" (no Yarn counterpart)
	bits  int
}

var errType = reflect.TypeOf((*error)(nil)).Elem()

var c16Params = []tdesc{
	{"int", reflect.TypeOf(int(0)), "int", 64}, {"int8", reflect.TypeOf(int8(0)), "int", 8}, {"int16", reflect.TypeOf(int16(0)), "int", 16},
	{"int32", reflect.TypeOf(int32(0)), "int", 32}, {"int64", reflect.TypeOf(int64(0)), "int", 64},
	{"float32", reflect.TypeOf(float32(0)), "float", 32}, {"float64", reflect.TypeOf(float64(0)), "float", 64},
	{"bool", reflect.TypeOf(false), "bool", 0}, {"string", reflect.TypeOf(""), "string", 0},
	{"MyInt", reflect.TypeOf(MyInt(0)), "int", 64}, {"MyInt8", reflect.TypeOf(MyInt8(0)), "int", 8}, {"MyFloat", reflect.TypeOf(MyFloat(0)), "float", 64},
	{"MyBool", reflect.TypeOf(MyBool(false)), "bool", 0}, {"MyString", reflect.TypeOf(MyString("")), "string", 0},
	{"uint", reflect.TypeOf(uint(0)), "uint", 64}, {"uint8", reflect.TypeOf(uint8(0)), "uint", 8},
	{"struct", reflect.TypeOf(MyStruct{}), "none", 0}, {"[]int", reflect.TypeOf([]int{}), "none", 0}, {"error", errType, "none", 0},
	{"*int", reflect.TypeOf(new(int)), "none", 0}, {"func()", reflect.TypeOf(func() {}), "none", 0}, {"any", reflect.TypeOf((*any)(nil)).Elem(), "none", 0},
}

type rdesc struct {
	name  string
	t     reflect.Type
	class string // "value", "error", "chan", "none", "uint"
}

var c16Results = []rdesc{
	{"int", reflect.TypeOf(int(0)), "value"}, {"int64", reflect.TypeOf(int64(0)), "value"}, {"int8", reflect.TypeOf(int8(0)), "value"},
	{"float64", reflect.TypeOf(float64(0)), "value"}, {"float32", reflect.TypeOf(float32(0)), "value"}, {"bool", reflect.TypeOf(false), "value"},
	{"string", reflect.TypeOf(""), "value"}, {"MyInt", reflect.TypeOf(MyInt(0)), "value"}, {"MyString", reflect.TypeOf(MyString("")), "value"},
	{"MyFloat", reflect.TypeOf(MyFloat(0)), "value"}, {"MyBool", reflect.TypeOf(MyBool(false)), "value"},
	{"error", errType, "error"}, {"MyErr", reflect.TypeOf(MyErr{}), "error"},
	{"chan error", reflect.TypeOf(make(chan error)), "chan"}, {"<-chan error", reflect.TypeOf((<-chan error)(nil)), "chan"},
	{"uint", reflect.TypeOf(uint(0)), "uint"}, {"struct", reflect.TypeOf(MyStruct{}), "none"}, {"[]int", reflect.TypeOf([]int{}), "none"},
	{"chan int", reflect.TypeOf(make(chan int)), "none"},
	// channels a command bridge may or may not take; if it takes them it must cope with them
	{"chan<- error", reflect.TypeOf((chan<- error)(nil)), "oddchan"}, {"chan MyErr", reflect.TypeOf(make(chan MyErr)), "oddchan"},
	{"MyErrChan", reflect.TypeOf(MyErrChan(nil)), "oddchan"}, {"chan *MyErr", reflect.TypeOf(make(chan *MyErr)), "oddchan"},
}

func (c16) Cases(tier string) int {
	if tier == "thorough" {
		// 682 one-parameter + 2 * 15004 two-parameter / one-parameter-plus-variadic signatures, then PRNG samples
		return 682 + 2*15004 + 22*22*22*31 + 40000
	}
	return 2600
}

func (c16) Chunk(tier string) int { return 100 }

func (c16) Thresholds(tier string) map[string]int64 {
	th := map[string]int64{
		"signatures":                            2500,
		"accepted":                              300,
		"refused":                               400,
		"script-run-after-refused-registration": 300,
		"re-registrations-with-closures-of-one-literal": 500,
		"converted-registrations-in-mid-run":            500,
		"must-refuse-checked":                           400,
		"non-function-values-refused":                   400,
		"script-side-calls":                             8000,
		"calls:matching-arguments":                      1500,
		"calls:wrong-count":                             1500,
		"calls:wrong-type":                              1500,
		"calls:number-out-of-range-for-kind":            150,
		"calls:nan-or-inf-into-integer":                 100,
		"calls:fractional-into-integer":                 100,
		"faithful-conversions-checked":                  2000,
		"variadic-accepted":                             100,
		"variadic-tail-lengths>=2":                      100,
		"named-parameter-type-accepted":                 100,
		"function-bridge":                               900,
		"command-bridge":                                900,
		"command-in-bridge-goroutine":                   100,
		"result:value-converted-back":                   150,
		"result:error-surfaced":                         150,
		"result:nil-channel-is-error":                   10,
	}
	for _, k := range []string{"int", "int8", "int16", "int32", "int64", "float32", "float64", "bool", "string", "MyInt", "MyInt8", "MyFloat", "MyBool", "MyString"} {
		th["accepted-param:"+k] = 20
	}
	return th
}

func (c16) Exhaustive(tier string) (bool, string) {
	if tier == "thorough" {
		return true, "every one-parameter signature {22 parameter types} x {20 function result lists, 11 command result lists}, every two-parameter signature {22 x 22} x the same result lists, and every one-parameter-plus-variadic-tail signature {22 x 22} x the same result lists are enumerated completely and every three-parameter signature {22 x 22 x 22} x the same result lists are enumerated completely (360778 signatures); signatures with two results or with two or more parameters plus a variadic tail are PRNG-sampled"
	}
	return true, "cases 0..681 enumerate every one-parameter function signature {22 parameter types} x {20 result lists} and every one-parameter command signature {22} x {11 result lists}; all other signatures (0-3 parameters, variadic tails, 0-2 results) are PRNG-sampled"
}

func (c16) Rule() string {
	return "case = one Go function type built with reflect.FuncOf: 0-3 parameters + optional variadic tail over {int, int8..int64, float32, float64, bool, string, named variants of each kind, uint, uint8, struct, []int, error, *int, func(), any} and 0-2 results over {value kinds, named value kinds, error, a named non-pointer error type, chan error, <-chan error, uint, struct, []int, chan int}; the one-parameter signatures are enumerated completely, the others are PRNG-sampled. The value (a reflect.MakeFunc probe that records what it receives and returns preset results) is registered with ConvertAndAddFunction or ConvertAndAddCommand; non-function values (nil, 3, \"s\", a struct, a typed nil func) are registered too. Unconditional oracle: a signature with a parameter, variadic element or result that has no Yarn counterpart, and every non-function value, is refused with an error, never a panic. After a refusal a script that uses the refused name gets an error (never a panic), and a built-in (round / wait) or an earlier host registration under the name the refused value was offered for keeps working. Conditional oracle: IF registration succeeded, the function is called FROM SCRIPTS ({f(..)}, <<call f(..)>>, <<cmd ..>>) with argument lists of length 0-4 over {number, boolean, string}: matching count and types => the probe saw the faithfully converted arguments and the script saw the converted result / the sentinel error; otherwise => an error; never a panic (a panic in the bridge goroutine kills the child: detected through the on-disk progress marker and confirmed alone). Numbers into integer kinds: integral and in range => exactly that value; NaN, +-Inf or out of range for the declared kind => an error is required; fractional and in range => error or truncation. Non-trivial: the signature is accepted and has >=1 parameter, or it is in the must-refuse set. Distinct by the signature's string."
}

func (c16) Assumptions() []string {
	return []string{
		"signatures 'in between' (unsigned integers) may be refused or accepted; if accepted they must work for integral in-range values",
		"float32 faithfulness is judged only on values float32 represents exactly",
		"a function result declared as a named non-pointer error type is always a non-nil error when returned",
	}
}

type sig struct {
	params   []tdesc
	variadic *tdesc
	results  []rdesc
	command  bool
}

func (s sig) String() string {
	var p []string
	for _, t := range s.params {
		p = append(p, t.name)
	}
	if s.variadic != nil {
		p = append(p, "..."+s.variadic.name)
	}
	var r []string
	for _, t := range s.results {
		r = append(r, t.name)
	}
	kind := "function"
	if s.command {
		kind = "command"
	}
	return fmt.Sprintf("%s func(%s) (%s)", kind, strings.Join(p, ", "), strings.Join(r, ", "))
}

func (s sig) goType() reflect.Type {
	var in, out []reflect.Type
	for _, t := range s.params {
		in = append(in, t.t)
	}
	if s.variadic != nil {
		in = append(in, reflect.SliceOf(s.variadic.t))
	}
	for _, t := range s.results {
		out = append(out, t.t)
	}
	return reflect.FuncOf(in, out, s.variadic != nil)
}

// bridgeable: "yes", "no" or "maybe" (unsigned integers)
func (s sig) bridgeable() string {
	res := "yes"
	for _, t := range s.params {
		if t.class == "none" {
			return "no"
		}
		if t.class == "uint" {
			res = "maybe"
		}
	}
	if s.variadic != nil {
		if s.variadic.class == "none" {
			return "no"
		}
		if s.variadic.class == "uint" {
			res = "maybe"
		}
	}
	cls := func(i int) string { return s.results[i].class }
	if s.command {
		switch len(s.results) {
		case 0:
		case 1:
			if cls(0) == "oddchan" {
				return "maybe"
			}
			if cls(0) != "error" && cls(0) != "chan" {
				return "no"
			}
		default:
			return "no"
		}
		return res
	}
	switch len(s.results) {
	case 0:
	case 1:
		switch cls(0) {
		case "value", "error":
		case "uint":
			res = "maybe"
		default:
			return "no"
		}
	case 2:
		if cls(1) != "error" {
			return "no"
		}
		switch cls(0) {
		case "value":
		case "uint":
			res = "maybe"
		default:
			return "no"
		}
	default:
		return "no"
	}
	return res
}

var c16CommandResults = [][]rdesc{{}, {c16Results[11]}, {c16Results[12]}, {c16Results[13]}, {c16Results[14]}, {c16Results[0]}, {c16Results[16]},
	{c16Results[19]}, {c16Results[20]}, {c16Results[21]}, {c16Results[22]}}

func c16FuncResults() [][]rdesc {
	out := [][]rdesc{{}}
	for _, r := range c16Results {
		out = append(out, []rdesc{r})
	}
	return out // 1 + 19 = 20 lists
}

func (c16) pickSig(c *core.Ctx) sig {
	r := c.R
	fr := c16FuncResults()
	nf := len(c16Params) * len(fr)
	nc := len(c16Params) * len(c16CommandResults)
	if c.Idx < nf {
		return sig{params: []tdesc{c16Params[c.Idx/len(fr)]}, results: fr[c.Idx%len(fr)]}
	}
	if c.Idx < nf+nc {
		i := c.Idx - nf
		return sig{params: []tdesc{c16Params[i/len(c16CommandResults)]}, results: c16CommandResults[i%len(c16CommandResults)], command: true}
	}
	if c.Thorough() {
		// thorough: every two-parameter signature and every (one parameter + variadic tail) signature as well
		np := len(c16Params)
		i := c.Idx - nf - nc
		twoF, twoC := np*np*len(fr), np*np*len(c16CommandResults)
		switch {
		case i < twoF:
			return sig{params: []tdesc{c16Params[i/len(fr)/np], c16Params[i/len(fr)%np]}, results: fr[i%len(fr)]}
		case i < twoF+twoC:
			i -= twoF
			k := len(c16CommandResults)
			return sig{params: []tdesc{c16Params[i/k/np], c16Params[i/k%np]}, results: c16CommandResults[i%k], command: true}
		case i < 2*(twoF+twoC):
			// the same lists with the second type as a variadic tail
			i -= twoF + twoC
			cmd := i >= twoF
			if cmd {
				i -= twoF
			}
			lists, k := fr, len(fr)
			if cmd {
				lists, k = c16CommandResults, len(c16CommandResults)
			}
			v := c16Params[i/k%np]
			return sig{params: []tdesc{c16Params[i/k/np]}, variadic: &v, results: lists[i%k], command: cmd}
		case i < 2*(twoF+twoC)+np*np*np*(len(fr)+len(c16CommandResults)):
			// every three-parameter signature
			i -= 2 * (twoF + twoC)
			all := append(append([][]rdesc{}, fr...), c16CommandResults...)
			k := len(all)
			j := i / k
			return sig{params: []tdesc{c16Params[j/np/np], c16Params[j/np%np], c16Params[j%np]}, results: all[i%k], command: i%k >= len(fr)}
		}
	}
	var s sig
	s.command = r.Bool()
	_ = 0
	// mostly bridgeable parameter types, so that many signatures are accepted and called
	pickParam := func() tdesc {
		if r.Chance(1, 8) {
			return c16Params[r.Intn(len(c16Params))]
		}
		return c16Params[r.Intn(14)]
	}
	for k := r.Intn(4); k > 0; k-- {
		s.params = append(s.params, pickParam())
	}
	if r.Chance(1, 3) {
		t := pickParam()
		s.variadic = &t
	}
	if s.command {
		s.results = c16CommandResults[r.PickW(25, 25, 10, 20, 10, 5, 5, 4, 4, 4, 4)]
	} else {
		switch r.PickW(15, 50, 35) {
		case 1:
			s.results = []rdesc{c16Results[r.Intn(len(c16Results))]}
			if r.Chance(2, 3) {
				s.results = []rdesc{c16Results[r.Intn(13)]}
			}
		case 2:
			s.results = []rdesc{c16Results[r.Intn(11)], c16Results[11+r.Intn(2)]}
			if r.Chance(1, 6) {
				s.results = []rdesc{c16Results[r.Intn(len(c16Results))], c16Results[r.Intn(len(c16Results))]}
			}
			if r.Chance(1, 12) {
				s.results = append(s.results, c16Results[11])
			}
		}
	}
	return s
}

// a script-side argument
type sarg struct {
	src   string  // expression text
	class string  // "number", "boolean", "string"
	num   float64 // for numbers
	b     bool
	s     string
}

var c16Numbers = []sarg{
	{src: "0", class: "number", num: 0}, {src: "1", class: "number", num: 1}, {src: "7", class: "number", num: 7}, {src: "-1", class: "number", num: -1},
	{src: "100", class: "number", num: 100}, {src: "127", class: "number", num: 127}, {src: "-128", class: "number", num: -128},
	{src: "2.5", class: "number", num: 2.5}, {src: "-0.75", class: "number", num: -0.75}, {src: "300", class: "number", num: 300}, {src: "-129", class: "number", num: -129},
	{src: "3000000000", class: "number", num: 3e9}, {src: "40000", class: "number", num: 40000},
	{src: "(1000000000000000 * 1000000000000000)", class: "number", num: 1e30}, {src: "(0 / 0)", class: "number", num: math.NaN()},
	{src: "(1 / 0)", class: "number", num: math.Inf(1)}, {src: "(-1 / 0)", class: "number", num: math.Inf(-1)}, {src: "9223372036854775807", class: "number", num: 9223372036854775807},
	{src: "0.1", class: "number", num: 0.1}, {src: "16777217", class: "number", num: 16777217},
	{src: "16777215", class: "number", num: 16777215}, {src: "-8388607.5", class: "number", num: -8388607.5}, {src: "32767", class: "number", num: 32767}, {src: "-32768", class: "number", num: -32768},
	{src: "2147483647", class: "number", num: 2147483647}, {src: "-2147483648", class: "number", num: -2147483648}, {src: "2147483648", class: "number", num: 2147483648}, {src: "32768", class: "number", num: 32768},
	{src: "128", class: "number", num: 128}, {src: "9223372036854775808", class: "number", num: 9223372036854775808}, {src: "-9223372036854775808", class: "number", num: -9223372036854775808},
}
var c16Others = []sarg{
	{src: "true", class: "boolean", b: true}, {src: "false", class: "boolean", b: false},
	{src: `"txt"`, class: "string", s: "txt"}, {src: `""`, class: "string", s: ""}, {src: `"Ünï 日本"`, class: "string", s: "Ünï 日本"}, {src: `"12"`, class: "string", s: "12"},
	// strings that LOOK like a boolean or a number: a string all the same (a bool or numeric parameter refuses them)
	{src: `"true"`, class: "string", s: "true"}, {src: `"1"`, class: "string", s: "1"}, {src: `"t"`, class: "string", s: "t"}, {src: `"FALSE"`, class: "string", s: "FALSE"},
	{src: `"0"`, class: "string", s: "0"}, {src: `"1.5"`, class: "string", s: "1.5"}, {src: `"False"`, class: "string", s: "False"},
}

func intRange(bits int) (float64, float64) {
	return -math.Ldexp(1, bits-1), math.Ldexp(1, bits-1) // [lo, hi)
}

type expectation struct {
	verdict string // "ok", "error", "either"
	want    []string
	alt     []string // accepted alternative (truncation)
}

func describeArg(t tdesc, a sarg) (verdict string, exact string, trunc string) {
	switch t.class {
	case "int", "uint":
		if a.class != "number" {
			return "error", "", ""
		}
		v := a.num
		lo, hi := intRange(t.bits)
		if t.class == "uint" {
			lo, hi = 0, math.Ldexp(1, t.bits)
		}
		tv := math.Trunc(v)
		if math.IsNaN(v) || math.IsInf(v, 0) || tv < lo || tv >= hi {
			return "error", "", ""
		}
		if v == tv {
			return "ok", fmt.Sprintf("n:%v", v), ""
		}
		return "either", "", fmt.Sprintf("n:%v", tv+0) // fractional: error or truncation
	case "float":
		if a.class != "number" {
			return "error", "", ""
		}
		if t.bits == 32 {
			if float64(float32(a.num)) == a.num || math.IsNaN(a.num) {
				return "ok", fmt.Sprintf("n:%v", float64(float32(a.num))), ""
			}
			return "either", "", "*" // any value, no judgement
		}
		return "ok", fmt.Sprintf("n:%v", a.num), ""
	case "bool":
		if a.class != "boolean" {
			return "error", "", ""
		}
		return "ok", fmt.Sprintf("b:%v", a.b), ""
	case "string":
		if a.class != "string" {
			return "error", "", ""
		}
		return "ok", fmt.Sprintf("s:%q", a.s), ""
	}
	return "error", "", ""
}

func recordValue(v reflect.Value) string {
	switch v.Kind() {
	case reflect.Int, reflect.Int8, reflect.Int16, reflect.Int32, reflect.Int64:
		return fmt.Sprintf("n:%v", float64(v.Int()))
	case reflect.Uint, reflect.Uint8, reflect.Uint16, reflect.Uint32, reflect.Uint64:
		return fmt.Sprintf("n:%v", float64(v.Uint()))
	case reflect.Float32, reflect.Float64:
		return fmt.Sprintf("n:%v", v.Float())
	case reflect.Bool:
		return fmt.Sprintf("b:%v", v.Bool())
	case reflect.String:
		return fmt.Sprintf("s:%q", v.String())
	}
	return "?:" + v.Kind().String()
}

func presetResult(r rdesc, mode int) (reflect.Value, string) {
	switch r.class {
	case "value", "uint":
		v := reflect.New(r.t).Elem()
		switch r.t.Kind() {
		case reflect.Int, reflect.Int8, reflect.Int16, reflect.Int32, reflect.Int64:
			v.SetInt(7)
			return v, "7"
		case reflect.Uint:
			v.SetUint(7)
			return v, "7"
		case reflect.Float32, reflect.Float64:
			v.SetFloat(2.5)
			return v, "2.5"
		case reflect.Bool:
			v.SetBool(true)
			return v, "True"
		case reflect.String:
			v.SetString("res")
			return v, "res"
		}
		return v, "?"
	case "error":
		if r.t == errType {
			if mode%2 == 1 {
				return reflect.ValueOf(&errSentinel).Elem(), "error"
			}
			return reflect.Zero(errType), "nil"
		}
		return reflect.ValueOf(MyErr{Code: 3}), "error"
	case "oddchan":
		// a non-nil channel of the odd type on which nothing is ever sent; when its element type is error itself
		// (a send-only channel, a named channel type) the probe closes it before returning it: the command has
		// completed without an error, and a bridge that accepted the signature must resume the dialogue
		ch := reflect.MakeChan(reflect.ChanOf(reflect.BothDir, r.t.Elem()), 1)
		if r.t.Elem() == errType {
			ch.Close()
			return ch.Convert(r.t), "nil"
		}
		return ch.Convert(r.t), "odd-channel"
	case "chan":
		switch mode % 3 {
		case 0:
			ch := make(chan error, 1)
			ch <- nil
			return reflect.ValueOf(ch).Convert(r.t), "nil"
		case 1:
			ch := make(chan error, 1)
			ch <- errSentinel
			return reflect.ValueOf(ch).Convert(r.t), "error"
		}
		return reflect.Zero(r.t), "nil-channel"
	}
	return reflect.Zero(r.t), "?"
}

func tryRegister(rr *mon.Real, command bool, name string, v any) (err error, pan string) {
	defer func() {
		if p := recover(); p != nil {
			pan = fmt.Sprintf("%v\n%s", p, debug.Stack())
		}
	}()
	if command {
		return rr.DR.ConvertAndAddCommand(name, v), ""
	}
	return rr.DR.ConvertAndAddFunction(name, v), ""
}

// afterRefusal: a refused registration leaves nothing behind. A script that uses the refused name gets
// the error of an unknown function / command (never a panic), and a name that already had a working
// function or command (a built-in, or one the host registered before) keeps it.
func (p c16) afterRefusal(c *core.Ctx, command bool, refusedValue any, detail func(map[string]any) map[string]any) {
	var script string
	if command {
		script = "title: Start\n---\n<<f 1>>\nafter f\n<<wait 0>>\nafter wait\n<<mine 2>>\nafter mine\n===\n"
	} else {
		script = "title: Start\n---\n{f(1)}\nafter f\nround {round(2.4)}\nmine {mine(2)}\n===\n"
	}
	rr, err, pan := mon.Create(nil, "", []string{script})
	if err != nil || pan != "" {
		c.Inconclusive("after-refusal script failed to load")
		return
	}
	mineCalls := 0
	if command {
		rr.DR.AddCommand("mine", mon.AdaptCmd(func([]model.Val) error { mineCalls++; return nil }))
	} else {
		rr.DR.AddFunction("mine", mon.AdaptFn(func(a []model.Val) (model.Val, bool, error) { mineCalls++; return model.N(7), true, nil }))
	}
	builtin := "round"
	if command {
		builtin = "wait"
	}
	for _, name := range []string{"f", builtin, "mine"} {
		if e, pn := tryRegister(rr, command, name, refusedValue); e == nil || pn != "" {
			c.Violate("a signature refused under one name was accepted (or panicked) under the name "+name, detail(map[string]any{"panic": pn}))
			return
		}
	}
	var trace []string
	want := []string{"<error>", "after f", "after wait", "after mine"}
	if !command {
		want = []string{"<error>", "after f", "round 2", "mine 7"}
	}
	for i, w := range want {
		o := rr.Next(0)
		trace = append(trace, o.String())
		ok := o.Kind == mon.KLine && o.Text == w
		if w == "<error>" {
			ok = o.Kind == mon.KErr
		}
		if !ok {
			c.Violate(fmt.Sprintf("after a refused registration the script does not run as if nothing had been registered (step %d: want %s, got %s)", i, w, o),
				detail(map[string]any{"readers": []string{script}, "trace": trace}))
			return
		}
	}
	if mineCalls != 1 {
		c.Violate(fmt.Sprintf("the function / command the host had registered before the refused one was invoked %d times, want 1", mineCalls), detail(map[string]any{"readers": []string{script}, "trace": trace}))
		return
	}
	c.Feature("script-run-after-refused-registration")
}

// c16Coins and c16Tagger are closure factories that are not inlined, so that every closure they return has
// the same code pointer (an inlined factory gets a copy of the closure body per call site).
//
//go:noinline
func c16Coins(n float64) func() float64 { return func() float64 { return n } }

//go:noinline
func c16Tagger(log *[]string, tag string) func(string) {
	return func(string) { *log = append(*log, tag) }
}

// reRegistration: registering another value under a name that is taken replaces the earlier one - also when
// both values come from the same function literal (closures over different state share their code pointer)
// or are method values of the same method.
func (p c16) reRegistration(c *core.Ctx) {
	r := c.R
	coins := c16Coins
	a, b := float64(r.Range(1, 50)), float64(r.Range(51, 99))
	var called []string
	cmd := func(tag string) func(string) { return c16Tagger(&called, tag) }
	script := "title: Start\n---\ncoins {g()}\n<<act x>>\nafter\ncoins {g()} {h()}\n<<act y>>\n<<react z>>\nend\n===\n"
	rr, err, pan := mon.Create(nil, "", []string{script})
	if err != nil || pan != "" {
		c.Inconclusive("re-registration script failed to load")
		return
	}
	for _, reg := range []func() error{
		func() error { return rr.DR.ConvertAndAddFunction("g", coins(a)) },
		func() error { return rr.DR.ConvertAndAddFunction("g", coins(b)) },
		func() error { return rr.DR.ConvertAndAddCommand("act", cmd("first")) },
		func() error { return rr.DR.ConvertAndAddCommand("act", cmd("second")) },
	} {
		if err := reg(); err != nil {
			c.Violate("registering func() float64 / func(string) failed: "+err.Error(), nil)
			return
		}
	}
	o1 := rr.Next(0)
	o2 := rr.Next(0)
	want := fmt.Sprintf("coins %v", b)
	if o1.Kind != mon.KLine || o1.Text != want || o2.Kind != mon.KLine || o2.Text != "after" || len(called) != 1 || called[0] != "second" {
		c.Violate("a second registration under the same name (a closure of the same function literal) did not replace the first", map[string]any{
			"readers": []string{script}, "first_returns": a, "second_returns": b, "line_shown": o1.String(), "then": o2.String(), "command_handlers_invoked": called})
		return
	}
	c.Feature("re-registrations-with-closures-of-one-literal")
	// the dialogue is under way: the host replaces both and registers two new names; what runs from now on
	// is what is registered by then
	d, e := float64(r.Range(100, 150)), float64(r.Range(151, 199))
	for _, reg := range []func() error{
		func() error { return rr.DR.ConvertAndAddFunction("g", coins(d)) },
		func() error { return rr.DR.ConvertAndAddFunction("h", coins(e)) },
		func() error { return rr.DR.ConvertAndAddCommand("act", cmd("third")) },
		func() error { return rr.DR.ConvertAndAddCommand("react", cmd("new")) },
	} {
		if err := reg(); err != nil {
			c.Violate("registering func() float64 / func(string) in mid-run failed: "+err.Error(), nil)
			return
		}
	}
	o3 := rr.Next(0)
	o4 := rr.Next(0)
	want = fmt.Sprintf("coins %v %v", d, e)
	if o3.Kind != mon.KLine || o3.Text != want || o4.Kind != mon.KLine || o4.Text != "end" || strings.Join(called, ",") != "second,third,new" {
		c.Violate("functions and commands registered (or replaced) through the converting calls while the dialogue is under way are not what later statements run", map[string]any{
			"readers": []string{script}, "g_returns_now": d, "h_returns": e, "line_shown": o3.String(), "then": o4.String(), "command_handlers_invoked": called, "expected_handlers": "second,third,new"})
		return
	}
	c.Feature("converted-registrations-in-mid-run")
}

func (p c16) Run(c *core.Ctx) {
	if c.Idx%4 == 0 {
		p.reRegistration(c)
		if c.Failed() {
			return
		}
	}
	r := c.R
	s := p.pickSig(c)
	c.Feature("signatures")
	if s.command {
		c.Feature("command-bridge")
	} else {
		c.Feature("function-bridge")
	}
	ft := s.goType()
	var received []string
	var mode int
	var lastResult []string
	probe := reflect.MakeFunc(ft, func(args []reflect.Value) []reflect.Value {
		received = received[:0]
		for i, a := range args {
			if s.variadic != nil && i == len(args)-1 {
				for k := 0; k < a.Len(); k++ {
					received = append(received, recordValue(a.Index(k)))
				}
				continue
			}
			received = append(received, recordValue(a))
		}
		received = append(received, "<called>")
		var out []reflect.Value
		lastResult = lastResult[:0]
		for _, rd := range s.results {
			v, d := presetResult(rd, mode)
			out = append(out, v)
			lastResult = append(lastResult, d)
		}
		return out
	})
	const stub = "title: Start\n---\nx\n===\n"
	newRunner := func() *mon.Real {
		rr, err, pan := mon.Create(nil, "", []string{stub})
		if err != nil || pan != "" {
			return nil
		}
		return rr
	}
	rr := newRunner()
	if rr == nil {
		c.Inconclusive("stub script failed to load")
		return
	}
	regErr, pan := tryRegister(rr, s.command, "f", probe.Interface())
	detail := func(extra map[string]any) map[string]any {
		d := map[string]any{"signature": s.String(), "go_type": ft.String()}
		for k, v := range extra {
			d[k] = v
		}
		return d
	}
	if pan != "" {
		c.Violate("registration panicked", detail(map[string]any{"panic": pan}))
		return
	}
	br := s.bridgeable()
	if br == "no" {
		c.Feature("must-refuse-checked")
		c.Nontrivial(s.String())
		if regErr == nil {
			c.Violate("a signature that cannot be bridged was accepted at registration", detail(nil))
			return
		}
	}
	// non-function values and a typed nil func, on the same kind of bridge
	if c.Idx%6 == 0 {
		var nilFunc func(int) error
		for _, v := range []any{nil, 3, "s", MyStruct{}, nilFunc, reflect.Zero(ft).Interface(), &nilFunc, []func(){}} {
			e, pn := tryRegister(rr, s.command, "g", v)
			if pn != "" {
				c.Violate(fmt.Sprintf("registering the non-function value %T(%v) panicked", v, v), detail(map[string]any{"panic": pn}))
				return
			}
			if e == nil {
				c.Violate(fmt.Sprintf("the non-function value %T(%v) was accepted at registration", v, v), detail(nil))
				return
			}
			c.Feature("non-function-values-refused")
		}
	}
	if regErr != nil {
		c.Feature("refused")
		if br == "yes" {
			c.Violate("a signature whose parameters and results all have Yarn counterparts was refused: "+regErr.Error(), detail(nil))
			return
		}
		p.afterRefusal(c, s.command, probe.Interface(), detail)
		return
	}
	c.Feature("accepted")
	for _, t := range s.params {
		c.Feature("accepted-param:" + t.name)
		if strings.HasPrefix(t.name, "My") {
			c.Feature("named-parameter-type-accepted")
		}
	}
	if s.variadic != nil {
		c.Feature("variadic-accepted")
	}
	if len(s.params) > 0 || s.variadic != nil {
		c.Nontrivial(s.String())
	}
	if s.command && (len(s.results) == 0 || s.results[0].class == "error") {
		c.Feature("command-in-bridge-goroutine")
	}

	// ---- script-side calls
	ncalls := 10
	if c.Thorough() {
		ncalls = 24
	}
	for call := 0; call < ncalls; call++ {
		mode = call
		// build an argument list: mostly of the right shape, sometimes hostile
		var args []sarg
		n := len(s.params)
		tail := 0
		if s.variadic != nil {
			tail = r.Intn(4)
		}
		shape := r.PickW(55, 20, 25) // 0 matching, 1 wrong count, 2 random types
		want := n + tail
		if shape == 1 {
			if want > 0 && r.Bool() && (s.variadic == nil || n > 0) {
				want = r.Intn(max(n, 1))
				if s.variadic != nil {
					want = r.Intn(n) // fewer than the fixed parameters
				}
			} else if s.variadic == nil {
				want = n + r.Range(1, 2)
			}
		}
		if want > 4 {
			want = 4
		}
		for i := 0; i < want; i++ {
			var t tdesc
			switch {
			case i < n:
				t = s.params[i]
			case s.variadic != nil:
				t = *s.variadic
			default:
				t = c16Params[r.Intn(9)]
			}
			pool := c16Others
			if shape != 2 {
				switch t.class {
				case "int", "uint", "float":
					pool = c16Numbers
					if r.Chance(2, 3) {
						pool = c16Numbers[:7] // representable everywhere
					}
				case "bool":
					pool = c16Others[:2]
				case "string":
					pool = c16Others[2:]
				}
			} else if r.Bool() {
				pool = c16Numbers
			}
			args = append(args, pool[r.Intn(len(pool))])
		}
		// expectation
		exp := "ok"
		var wantRec, altRec []string
		countOK := len(args) == n || s.variadic != nil && len(args) >= n
		if !countOK {
			exp = "error"
			c.Feature("calls:wrong-count")
		} else {
			for i, a := range args {
				var t tdesc
				if i >= n {
					t = *s.variadic
				} else {
					t = s.params[i]
				}
				v, exact, tr := describeArg(t, a)
				switch v {
				case "error":
					exp = "error"
					if a.class == "number" && (t.class == "int" || t.class == "uint") {
						if math.IsNaN(a.num) || math.IsInf(a.num, 0) {
							c.Feature("calls:nan-or-inf-into-integer")
						} else {
							c.Feature("calls:number-out-of-range-for-kind")
						}
					} else {
						c.Feature("calls:wrong-type")
					}
				case "either":
					if exp == "ok" {
						exp = "either"
					}
					if t.class == "int" {
						c.Feature("calls:fractional-into-integer")
					}
					wantRec, altRec = append(wantRec, tr), append(altRec, tr)
				default:
					wantRec, altRec = append(wantRec, exact), append(altRec, exact)
				}
			}
			if exp == "ok" {
				c.Feature("calls:matching-arguments")
				if len(args)-n >= 2 {
					c.Feature("variadic-tail-lengths>=2")
				}
			}
		}
		var srcs []string
		for _, a := range args {
			srcs = append(srcs, a.src)
		}
		var stmt string
		valueResult := !s.command && len(s.results) >= 1 && (s.results[0].class == "value" || s.results[0].class == "uint")
		switch {
		case s.command:
			var w []string
			for _, a := range srcs {
				w = append(w, "{"+a+"}")
			}
			stmt = "<<f " + strings.Join(w, " ") + ">>"
		case valueResult:
			stmt = "R {f(" + strings.Join(srcs, ", ") + ")}"
		default:
			stmt = "<<call f(" + strings.Join(srcs, ", ") + ")>>"
		}
		script := "title: Start\n---\n" + stmt + "\nafter\n===\n"
		cr, err, pan := mon.Create(nil, "", []string{script})
		if err != nil || pan != "" {
			c.Violate("a calling script failed to load", detail(map[string]any{"readers": []string{script}, "error": fmt.Sprint(err), "panic": pan}))
			return
		}
		if e, pn := tryRegister(cr, s.command, "f", probe.Interface()); e != nil || pn != "" {
			c.Violate("a signature accepted once was not accepted again", detail(map[string]any{"error": fmt.Sprint(e), "panic": pn}))
			return
		}
		received = received[:0]
		lastResult = lastResult[:0]
		o := cr.Next(0)
		c.Feature("script-side-calls")
		d := detail(map[string]any{"readers": []string{script}, "probe_received": append([]string{}, received...), "probe_returned": append([]string{}, lastResult...), "observed": o.String(), "expected": exp})
		if o.Kind == mon.KPanic {
			c.Violate("the bridge panicked on a script-side call", d)
			return
		}
		oddChan := len(s.results) == 1 && s.results[0].class == "oddchan"
		if oddChan && s.results[0].t.Elem() != errType {
			// a channel of a concrete error type: nothing is prescribed for such a result beyond "the bridge never
			// panics" (what a close, or the zero value received from it, means is not settled): the command may
			// fail, or wait for a completion that the probe never reports
			c.Feature("odd-channel-result-survived")
			continue
		}
		if oddChan {
			// chan<- error, named chan error: accepted means callable - the closed channel is a completion
			c.Feature("accepted-odd-channel-of-error-must-complete")
		}
		if o.Kind == mon.KWaiting {
			c.Violate("a command whose handler returned never completed", d)
			return
		}
		called := len(received) > 0 && received[len(received)-1] == "<called>"
		if exp == "error" {
			if o.Kind != mon.KErr {
				c.Violate("a call with a wrong argument count or type (or a number that does not fit the declared kind) did not yield an error", d)
				return
			}
			if called {
				c.Violate("a call with a wrong argument count or type reached the function", d)
				return
			}
			continue
		}
		if exp == "either" && o.Kind == mon.KErr && !called {
			continue
		}
		if !called {
			c.Violate("a call with matching arguments did not run the function", d)
			return
		}
		got := received[:len(received)-1]
		match := len(got) == len(wantRec)
		for i := range got {
			if !match {
				break
			}
			if altRec[i] == "*" {
				continue
			}
			if got[i] != wantRec[i] && got[i] != altRec[i] {
				// NaN prints as NaN on both sides; -0 vs 0
				if !(got[i] == "n:-0" && wantRec[i] == "n:0" || got[i] == "n:0" && wantRec[i] == "n:-0") {
					match = false
				}
			}
		}
		if !match {
			d["probe_should_have_received"] = wantRec
			c.Violate("the function did not receive faithfully converted arguments", d)
			return
		}
		c.FeatureN("faithful-conversions-checked", len(got))
		// the result
		wantKind := mon.KLine
		wantText := "after"
		errIdx := -1
		for i, rd := range s.results {
			if rd.class == "error" || rd.class == "chan" {
				errIdx = i
			}
		}
		if errIdx >= 0 && (lastResult[errIdx] == "error" || lastResult[errIdx] == "nil-channel") {
			wantKind = mon.KErr
		} else if valueResult {
			wantText = "R " + lastResult[0]
		}
		if o.Kind != wantKind || wantKind == mon.KLine && o.Text != wantText {
			d["expected_result"] = fmt.Sprintf("%v %q", wantKind, wantText)
			c.Violate("the result or error of the function was not converted back", d)
			return
		}
		if wantKind == mon.KErr {
			c.Feature("result:error-surfaced")
			if lastResult[errIdx] == "nil-channel" {
				c.Feature("result:nil-channel-is-error")
			} else if s.results[errIdx].t == errType || s.results[errIdx].class == "chan" {
				if !errors.Is(o.Err, errSentinel) {
					d["note"] = "the error returned to the script does not wrap the function's error"
					c.Violate("the error of the function was not converted back", d)
					return
				}
			}
		} else if valueResult {
			c.Feature("result:value-converted-back")
		}
		if c.WantSample() && len(args) >= 2 && exp == "ok" {
			c.Sample(map[string]any{"signature": s.String(), "script": script, "probe_received": append([]string{}, got...), "observed": o.String()})
		}
	}
}
