package props

import (
	"fmt"
	"strings"

	"github.com/remieven/ysgo/verifharness/core"
	"github.com/remieven/ysgo/verifharness/gen"
	"github.com/remieven/ysgo/verifharness/hast"
)

// C01 — dialogue flow follows Yarn's sequential semantics.
type c01 struct{}

func init() { core.Register(c01{}) }

func (c01) ID() string { return "C01" }

// EvalFeatures names the counters of judged executions.
func (c01) EvalFeatures() []string { return []string{"paths"} }

func (c01) Cases(tier string) int {
	if tier == "thorough" {
		return 120000
	}
	return 3000
}

func (c01) Thresholds(tier string) map[string]int64 {
	return map[string]int64{
		"program-whose-Start-node-is-not-first": 40,
		"options-in-if-in-options":              20,
		"programs-with>=20-nodes":               30,
		"jump-out-of-nested-body":               50,
		"if-body-ends-in-option-group":          20,
		"stop-with-statements-left":             20,
		"chosen-body-empty":                     50,
		"multi-reader":                          100,
		"jump-by-expression":                    50,
		"if-taken-not-first":                    50,
		"if-none-taken":                         50,
		"garbage-arg-after-non-option":          1000,
		"disabled-option-chosen":                20,
		"deep-nesting>=8":                       5,
		"paths":                                 3000,
		"same-jump-statement-different-target":  300,
	}
}

func (c01) Rule() string {
	return "case = one AST-first generated program (<=5 nodes, <=45 statements, nesting <=5, or a deep-nesting chain up to depth 10, 1-3 readers) rendered in the canonical layout (two cases in three) or a PRNG layout and driven along systematically enumerated choice paths (first path all-0, siblings of every choice point met, <=10 paths quick / <=24 thorough); every Next is compared online with the reference interpreter (element kind, node, text, tags, option list and flags, host-function and command invocations in order, variable store content). Non-trivial: the path chose >=1 option and (took >=1 jump or reached continuation depth >=3 or took a non-first if clause). Distinct by hash of scripts+choices."
}

func (c01) Assumptions() []string {
	return []string{
		"the reference interpreter (harness/model) encodes the property text; it shares no code with ysgo",
		"commands registered by the harness are complete on return; a runner may still report 'waiting' before noticing, such polls are skipped",
		"comparison stops at the first error of a path: what a runner does after an error is not specified by C01",
		"logged probe functions are placed only where the property text fixes evaluation (line and option texts, set/call/command statements, the conditions of an if chain: a clause is evaluated only if every clause before it was false)",
		"numbers outside the plain display zone (exponent notation, NaN, Inf) are not compared literally",
	}
}

// deepChain builds options-in-if-in-options nesting down to the given depth, with a
// statement after every nested construct so that a multi-level dedent is followed
// by more work at each level.
func deepChain(r *core.Rand, depth int, id *int) []*hast.Stmt {
	next := func() int { *id++; return *id }
	line := func(p string) *hast.Stmt {
		return &hast.Stmt{K: hast.SLine, Parts: []hast.Part{hast.Lit(fmt.Sprintf("%s%d", p, next()))}, ID: next()}
	}
	if depth <= 0 {
		if r.Chance(1, 3) {
			return nil
		}
		return []*hast.Stmt{line("leaf")}
	}
	inner := deepChain(r, depth-1, id)
	var st *hast.Stmt
	if depth%2 == 0 {
		st = &hast.Stmt{K: hast.SOptions, ID: next()}
		k := r.Range(1, 3)
		pos := r.Intn(k)
		for i := 0; i < k; i++ {
			o := &hast.Option{Parts: []hast.Part{hast.Lit(fmt.Sprintf("opt%d", next()))}}
			if i == pos {
				o.Body = inner
			} else if r.Bool() {
				o.Body = []*hast.Stmt{line("side")}
			}
			st.Options = append(st.Options, o)
		}
	} else {
		st = &hast.Stmt{K: hast.SIf, ID: next()}
		switch r.Intn(3) {
		case 0:
			st.Clauses = []*hast.Clause{{Cond: hast.Bool(true), Body: inner}}
		case 1:
			st.Clauses = []*hast.Clause{{Cond: hast.Bool(false), Body: []*hast.Stmt{line("no")}}, {Cond: hast.Bool(true), Body: inner}, {Body: []*hast.Stmt{line("no")}}}
		default:
			st.Clauses = []*hast.Clause{{Cond: hast.Bool(false), Body: []*hast.Stmt{line("no")}}, {Body: inner}}
		}
	}
	body := []*hast.Stmt{}
	if r.Bool() {
		body = append(body, line("pre"))
	}
	body = append(body, st)
	if r.Chance(2, 3) {
		body = append(body, line("post"))
	}
	return body
}

func (c01) genProgram(c *core.Ctx) *hast.Program {
	r := c.R
	if c.Idx%12 == 11 {
		// deep-nesting chain: depth 6..10
		id := 0
		d := r.Range(6, 10)
		p := &hast.Program{Readers: 1, Nodes: []*hast.Node{{Title: "Start", Body: deepChain(r, d, &id)}}}
		if d >= 8 {
			c.Feature("deep-nesting>=8")
		}
		return p
	}
	if c.Idx%12 == 5 {
		return routerProgram(r)
	}
	cfg := gen.DefaultFlow()
	cfg.StartNotFirst = true
	if c.Thorough() && c.Idx%5 == 4 {
		// deeper bounds in the thorough tier: up to 8 nodes, 90 statements, nesting 7
		cfg.MaxNodes, cfg.MaxStmts, cfg.MaxDepth, cfg.MaxReaders = 8, 90, 7, 4
	}
	if c.Idx%25 == 7 {
		// many nodes spread over many readers (up to 90 / 8): lookups and merges beyond any small fixed size
		cfg.MaxNodes, cfg.MaxStmts, cfg.MaxReaders = 90, 220, 8
		return gen.Flow(r, cfg)
	}
	switch c.Idx % 4 {
	case 1:
		cfg.WOptions, cfg.WIf, cfg.MaxDepth = 30, 25, 6
	case 2:
		cfg.WJump, cfg.WStop = 14, 5
	case 3:
		cfg.MaxNodes, cfg.MaxReaders = 6, 4
	}
	return gen.Flow(r, cfg)
}

// routerProgram: one hub node whose single <<jump {$dest}>> statement is executed once per round with
// a different target each time (and whose targets come back through plain jumps).
func routerProgram(r *core.Rand) *hast.Program {
	id := 0
	next := func() int { id++; return id }
	line := func(parts ...hast.Part) *hast.Stmt { return &hast.Stmt{K: hast.SLine, Parts: parts, ID: next()} }
	set := func(v, op string, x *hast.Expr) *hast.Stmt {
		return &hast.Stmt{K: hast.SSet, Var: v, Op: op, X: x, ID: next()}
	}
	k := r.Range(2, 4)
	rounds := r.Range(3, 8)
	titles := []string{"T1", "Tdeux", "T3", "Ｔ４"}[:k]
	chain := &hast.Stmt{K: hast.SIf, ID: next()}
	for j, t := range titles {
		cond := hast.Bin("==", hast.Bin("%", hast.Var("i"), hast.Num(fmt.Sprint(k))), hast.Num(fmt.Sprint(j)))
		chain.Clauses = append(chain.Clauses, &hast.Clause{Cond: cond, Body: []*hast.Stmt{set("dest", "=", hast.Str(t))}})
	}
	hub := &hast.Node{Title: "Hub", Body: []*hast.Stmt{
		line(hast.Lit("hub "), hast.Inl(hast.Var("i"))),
		{K: hast.SIf, ID: next(), Clauses: []*hast.Clause{{
			Cond: hast.Bin(">", hast.Var("fuel"), hast.Num("0")),
			Body: []*hast.Stmt{set("fuel", "-=", hast.Num("1")), set("i", "+=", hast.Num("1")), chain, {K: hast.SJump, X: hast.Var("dest"), ID: next()}},
		}}},
		line(hast.Lit("bye")),
	}}
	p := &hast.Program{Readers: 1, Nodes: []*hast.Node{
		{Title: "Start", Body: []*hast.Stmt{set("fuel", "=", hast.Num(fmt.Sprint(rounds))), set("i", "=", hast.Num("0")), set("dest", "=", hast.Str("Hub")), {K: hast.SJump, Target: "Hub", ID: next()}}},
		hub,
	}}
	for _, t := range titles {
		body := []*hast.Stmt{line(hast.Lit("at "+t+" "), hast.Inl(hast.Call("visited_count", hast.Str("Hub"))))}
		if r.Bool() {
			body = append(body, &hast.Stmt{K: hast.SOptions, ID: next(), Options: []*hast.Option{
				{Parts: []hast.Part{hast.Lit("back")}, Body: []*hast.Stmt{{K: hast.SJump, Target: "Hub", ID: next()}}},
				{Parts: []hast.Part{hast.Lit("stay")}, Body: []*hast.Stmt{line(hast.Lit("stayed in " + t))}},
			}})
		}
		body = append(body, &hast.Stmt{K: hast.SJump, Target: "Hub", ID: next()})
		p.Nodes = append(p.Nodes, &hast.Node{Title: t, Body: body})
	}
	if r.Bool() {
		p.Readers = 2
		for _, n := range p.Nodes[2:] {
			n.Reader = 1
		}
	}
	return p
}

func (p c01) Run(c *core.Ctx) {
	prog := p.genProgram(c)
	// the flow semantics hold in every layout: one case in three is rendered in a PRNG layout
	lay := hast.L0()
	if c.Idx%3 == 2 {
		lay = hast.RandomLayout(c.R.Fork())
		c.Feature("rendered-in-random-layout")
	}
	scripts := hast.Render(prog, lay)
	shapeFeatures(c, prog)
	c.MaxOf("nodes-in-one-program", len(prog.Nodes))
	c.MaxOf("readers-of-one-program", len(scripts))
	if len(prog.Nodes) >= 20 {
		c.Feature("programs-with>=20-nodes")
	}
	for k, v := range gen.Shapes(prog) {
		if k != "max-static-depth" {
			c.FeatureN(k, v)
		} else {
			c.MaxOf(k, v)
		}
	}
	maxPaths := 10
	if c.Thorough() {
		maxPaths = 24
	}
	explorePaths(c, "trace diverges from Yarn's sequential semantics", prog, scripts,
		func() PairOpts { return PairOpts{UseDefaultStore: c.R.Chance(1, 3)} }, maxPaths, nil,
		func(pr *pathRun) {
			pair := pr.pair
			nonFirst := pair.M.Stats["if-taken-not-first"] > 0
			if pr.chose > 0 && (pair.M.Jumps > 0 || pair.M.MaxDepth >= 3 || nonFirst) {
				c.Nontrivial(strings.Join(scripts, "\x00"), fmt.Sprint(pr.choices))
			}
			if c.WantSample() && pr.chose > 1 && pair.M.Jumps > 0 {
				c.Sample(map[string]any{"readers": scripts, "choices": pr.choices, "trace": pair.Trace})
			}
		})
}
