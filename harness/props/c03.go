package props

import (
	"fmt"
	"github.com/remieven/ysgo"
	"github.com/remieven/ysgo/variable"
	"sort"
	"strconv"
	"strings"

	"github.com/remieven/ysgo/verifharness/core"
	"github.com/remieven/ysgo/verifharness/gen"
	"github.com/remieven/ysgo/verifharness/hast"
	"github.com/remieven/ysgo/verifharness/model"
	"github.com/remieven/ysgo/verifharness/mon"
)

// C03 — variables: (compound) assignment, type stability, storer is source of truth.
type c03 struct{}

func init() { core.Register(c03{}) }

func (c03) ID() string { return "C03" }

// EvalFeatures names the counters of judged executions.
func (c03) EvalFeatures() []string { return []string{"statements"} }

func (c03) Cases(tier string) int {
	if tier == "thorough" {
		return 150000
	}
	return 3000
}

var assignOps = []string{"=", "+=", "-=", "*=", "/=", "%="}
var curKinds = []string{"absent", "number", "boolean", "string"}

func (c03) Thresholds(tier string) map[string]int64 {
	th := map[string]int64{
		"histories":                                       2500,
		"statements":                                      30000,
		"failing-statements":                              2000,
		"store-unchanged-on-failure":                      2000,
		"host-writes":                                     3000,
		"host-write-read-back":                            1500,
		"host-write-new-variable":                         500,
		"statement-executed-again":                        3000,
		"recording-store-runs":                            1000,
		"default-store-runs":                              1000,
		"typed-slot-checks":                               20000,
		"compound-on-absent-variable":                     200,
		"restore-in-mid-history":                          300,
		"declare-from-function-call":                      300,
		"re-executed-assignments":                         2500,
		"re-executed-assignment-refused-on-type-change":   1000,
		"two-runners-over-one-store":                      1500,
		"variable-forgotten-by-the-store-gets-a-new-type": 1500,
	}
	for _, op := range assignOps {
		for _, cur := range curKinds {
			for _, as := range tyNames {
				th["row:set:"+op+":"+cur+":"+as] = 1
			}
		}
	}
	for _, cur := range curKinds {
		for _, as := range tyNames {
			th["row:declare:"+cur+":"+as] = 1
		}
	}
	return th
}

func (c03) Exhaustive(tier string) (bool, string) {
	return true, "case 0 enumerates the complete table {=,+=,-=,*=,/=,%=} x {absent,number,boolean,string} x {number,boolean,string} for set, and {absent,number,boolean,string} x {number,boolean,string} for declare, on both store implementations (evidence: coverage.features row:*)"
}

func (c03) Rule() string {
	return "case 0 = the complete assignment table (every operator x current type incl. absent x assigned type, via set and via declare), on the recording store and on the default store. Every other case = one history of 8-40 set/declare statements over 4 variables (one in five deliberately ill-typed, compound assignments to unknown variables included), interleaved with lines {$v} and with host writes made directly on the store between two steps (same-type overwrite or a new variable); blocks of the history are executed 2-3 times by the same runner through a jump loop. Now and then the host restores the runner from its own snapshot in mid-history (the run resumes at the node entry and must keep using the host's store). A script ends after the statement the model predicts to fail; the history continues in a new runner whose store the host pre-populates with the current values. Every case also runs ONE assignment (set or declare) 2-4 times through a jump loop with a right-hand side - a host function of the pass number - that yields another type at some pass: the execution at which the type differs from the variable's type then must fail and leave the store as it was. Every case finally drives the default store directly (10-40 typed writes, Clear and reads): GetValues, GetValue and Contains must agree with a plain map after every operation. Oracle after every Next: store content == model; no name under two types (recording store: no Set* on a name holding another type; default store: typed-name lists read through the verif hook); a predicted failure returns an error and leaves the store equal to the model's state before the statement; lines show the values the host just wrote. Non-trivial: the history has >=1 compound assignment and (a failing statement or a host write that is read back). Distinct by hash of the scripts + host writes."
}

func (c03) Assumptions() []string {
	return []string{
		"the default store's three typed maps are read through the verif hook VerifTypedNames (the one place where a hook feeds a verdict: the property itself speaks about the store's typed view)",
		"declare accepts only a value (literal, variable or call), as the grammar says; 'declare ... as <type>' is generated only with the matching type",
		"one recording-store run in three answers GetValue for an unknown name with a non-nil empty Value and ok == false (the usual map idiom); the ok flag is what says whether the variable exists",
		"host writes never change a variable's type (the property lets the host write values, it does not let it retype variables)",
	}
}

type hostWrite struct {
	name string
	val  model.Val
}

// c03item is one statement of a history plus the host writes to perform after it
// yields (only lines yield).
type c03item struct {
	stmt   *hast.Stmt
	writes []hostWrite
	faulty bool
}

func litOf(r *core.Rand, t hast.Ty) *hast.Expr {
	switch t {
	case hast.TNum:
		return hast.Num(r.Pick("0", "1", "2", "3", "7", "10", "0.5", "2.5", "100", "4"))
	case hast.TBool:
		return hast.Bool(r.Bool())
	}
	return hast.Str(r.Pick("a", "b", "", "xy", "é", "w w", "日"))
}

func valOf(r *core.Rand, t hast.Ty) model.Val {
	switch t {
	case hast.TNum:
		return model.N([]float64{0, 1, -3, 2.5, 40, 1e6, -0.25}[r.Intn(7)])
	case hast.TBool:
		return model.B(r.Bool())
	}
	return model.S(r.Pick("host", "", "Ünï", "h h", "42"))
}

func (p c03) Run(c *core.Ctx) {
	if c.Idx == 0 {
		p.table(c)
		return
	}
	r := c.R
	id := 0
	next := func() int { id++; return id }
	names := []string{"v1", "v2", "v3", "вар"}
	types := map[string]hast.Ty{} // the type each variable is meant to have
	for _, n := range names {
		types[n] = hast.Ty(r.Intn(3))
	}
	exists := map[string]bool{}
	sc := func() *gen.Scope {
		s := &gen.Scope{Vars: map[hast.Ty][]string{}, NextID: &id, Builtin: false}
		for _, n := range names {
			if exists[n] {
				s.Vars[types[n]] = append(s.Vars[types[n]], n)
			}
		}
		return s
	}
	n := r.Range(8, 40)
	var items []c03item
	compound := 0
	for i := 0; i < n; i++ {
		v := names[r.Intn(len(names))]
		t := types[v]
		it := c03item{}
		switch k := r.PickW(55, 12, 33); k {
		case 0, 1: // set / declare
			st := &hast.Stmt{K: hast.SSet, Var: v, Op: "=", ID: next()}
			as := t
			if r.Chance(1, 6) {
				as = hast.Ty((int(t) + 1 + r.Intn(2)) % 3) // ill-typed on purpose
				it.faulty = exists[v]
			}
			if k == 1 {
				st.K = hast.SDeclare
				if exists[v] && r.Bool() {
					st.X = hast.Var(v) // declare from a variable
					for _, o := range names {
						if exists[o] && types[o] == as {
							st.X = hast.Var(o)
						}
					}
				} else if r.Chance(1, 4) {
					// declared from a function call: a logged probe (evaluated exactly once) or the
					// side-effecting bump()
					st.X = hast.Call("p", hast.Num(strconv.Itoa(next())), litOf(r, as))
					if as == hast.TNum && r.Bool() {
						st.X = hast.Call("bump")
					}
					c.Feature("declare-from-function-call")
				} else {
					st.X = litOf(r, as)
				}
				if as == t && r.Chance(1, 5) {
					st.AsType = [...]string{"number", "bool", "string"}[t]
				}
			} else {
				if exists[v] || r.Chance(1, 8) {
					switch as {
					case hast.TNum:
						st.Op = r.Pick("=", "+=", "+=", "-=", "*=", "/=", "%=")
					case hast.TStr:
						st.Op = r.Pick("=", "+=", "+=")
					default:
						if r.Chance(1, 10) {
							st.Op = "+=" // not defined for booleans
							it.faulty = true
						}
					}
					if t == hast.TBool && as != hast.TBool || t == hast.TStr && as == hast.TNum {
						if r.Chance(1, 3) {
							st.Op = r.Pick("+=", "-=", "*=")
						}
					}
				}
				if st.Op != "=" {
					compound++
					if !exists[v] {
						c.Feature("compound-on-absent-variable")
						it.faulty = true
					}
				}
				if r.Chance(1, 2) {
					st.X = litOf(r, as)
				} else {
					st.X = sc().Expr(r, as, r.Range(0, 2))
				}
			}
			if !it.faulty && !exists[v] && st.Op == "=" && as == t {
				exists[v] = true
			}
			it.stmt = st
		default: // a line showing variables, possibly followed by host writes
			parts := []hast.Part{hast.Lit(fmt.Sprintf("S%d", next()))}
			for _, o := range names {
				if exists[o] {
					parts = append(parts, hast.Lit(" "+o+"="), hast.Inl(hast.Var(o)))
				}
			}
			it.stmt = &hast.Stmt{K: hast.SLine, Parts: parts, ID: next()}
			if r.Chance(1, 2) {
				v := names[r.Intn(len(names))]
				if exists[v] {
					it.writes = append(it.writes, hostWrite{v, valOf(r, types[v])})
				} else if r.Chance(1, 2) {
					it.writes = append(it.writes, hostWrite{v, valOf(r, types[v])})
					exists[v] = true
					c.Feature("host-write-new-variable")
				}
			}
		}
		items = append(items, it)
	}
	p.runHistory(c, items, compound)
	if !c.Failed() {
		p.retypeByReexecution(c)
	}
	if !c.Failed() {
		p.defaultStoreVersusMap(c)
	}
	if !c.Failed() {
		p.hostWritesDuringEvaluation(c)
	}
	if !c.Failed() {
		p.restoresAcrossTypes(c)
	}
	if !c.Failed() {
		p.twoRunnersOneStore(c)
	}
	if !c.Failed() {
		p.typeGoesWithTheVariable(c)
	}
}

// typeGoesWithTheVariable: "a variable never changes type once it has one" is about variables the store holds.
// When the host empties the store (Clear, a "new game") or restores a snapshot that does not have the variable,
// the variable is unknown again: the next set / declare gives it whatever type its value has.
func (p c03) typeGoesWithTheVariable(c *core.Ctx) {
	r := c.R
	decl := r.Pick("<<declare $x = 1>>", "<<set $x to 1>>", "<<declare $x = 1 as number>>", "<<set $x to 1>>\n<<set $x += 1>>")
	again := r.Pick("<<set $x to \"text\">>", "<<declare $x = \"text\">>", "<<set $x = \"te\" + \"xt\">>")
	script := "title: Start\n---\na\n" + decl + "\nb {$x > 0}\n<<jump Three>>\n===\ntitle: Three\n---\n" + again + "\nc {$x}\n===\n"
	useDef := r.Bool()
	rec := mon.NewRecStorer()
	def := variable.NewInMemoryStorer()
	var st variable.Storer = rec
	if useDef {
		st = def
	}
	rr, err, pan := mon.Create(st, "", []string{script})
	if err != nil || pan != "" {
		c.Violate("the script of the forgotten-variable scenario failed to load", map[string]any{"readers": []string{script}, "error": fmt.Sprint(err), "panic": pan})
		return
	}
	var trace []string
	step := func() mon.Obs { o := rr.Next(0); trace = append(trace, o.String()); return o }
	fail := func(what string) {
		c.Violate("a variable the store no longer holds is an unknown variable: "+what, map[string]any{"readers": []string{script}, "default_store": useDef, "trace": trace})
	}
	if o := step(); o.Kind != mon.KLine || o.Text != "a" {
		fail("first line not shown")
		return
	}
	if o := step(); o.Kind != mon.KLine || o.Text != "b True" {
		fail("second line should be \"b True\"")
		return
	}
	how := r.Intn(3)
	switch how {
	case 0:
		// the host wipes the store and lets the dialogue go on
		if useDef {
			def.Clear()
		} else {
			rec.Clear()
		}
		trace = append(trace, "host: Clear()")
	case 1:
		// a hand-built snapshot of node Three without variables
		if err := rr.RestoreAt(&ysgo.Snapshot{CurrentNode: "Three"}); err != nil {
			fail("RestoreAt of a snapshot of node Three failed: " + err.Error())
			return
		}
		trace = append(trace, "host: RestoreAt({CurrentNode: Three, no variables})")
	case 2:
		if err := rr.RestoreAt(&ysgo.Snapshot{CurrentNode: "Three", Variables: map[string]variable.Value{"other": *variable.NewBoolean(true)}, VisitedNodes: map[string]int{"Start": 1}}); err != nil {
			fail("RestoreAt of a snapshot of node Three failed: " + err.Error())
			return
		}
		trace = append(trace, "host: RestoreAt({CurrentNode: Three, Variables: {other: true}})")
	}
	if o := step(); o.Kind != mon.KLine || o.Text != "c text" {
		fail("after the variable was removed from the store, giving it a string must succeed and show \"c text\"")
		return
	}
	var got map[string]variable.Value
	if useDef {
		got = def.GetValues()
	} else {
		got = rec.GetValues()
	}
	if v, ok := got["x"]; !ok || v.String == nil || *v.String != "text" || v.Number != nil {
		fail(fmt.Sprintf("the store should hold $x as the string \"text\" only, it holds %+v", got))
		return
	}
	c.Feature("variable-forgotten-by-the-store-gets-a-new-type")
	c.FeatureN("statements", 4)
}

// twoRunnersOneStore: the host gives ONE store to two runners (two conversations of one game) and steps them in
// turn. The store is the source of truth for both: what one dialogue assigns the other one reads, a variable
// keeps the type it has whichever dialogue gave it that type, and a refused assignment leaves the store alone.
func (p c03) twoRunnersOneStore(c *core.Ctx) {
	r := c.R
	lit := func(t int, k int) (src string, shown string, v model.Val) {
		switch t {
		case 0:
			n := float64(r.Range(1, 900) + 1000*k)
			return strconv.Itoa(int(n)), strconv.Itoa(int(n)), model.N(n)
		case 1:
			b := r.Bool()
			if b {
				return "true", "True", model.B(true)
			}
			return "false", "False", model.B(false)
		}
		w := r.Pick("kiwi", "Åse", "日本", "a b", "x") + strconv.Itoa(k)
		return "\"" + w + "\"", w, model.S(w)
	}
	tx, ty := r.Intn(3), r.Intn(3)
	x1s, x1d, _ := lit(tx, 1)
	x2s, x2d, x2 := lit(tx, 2)
	ys, yd, yv := lit(ty, 3)
	badY, _, _ := lit((ty+1+r.Intn(2))%3, 4)
	badX, _, _ := lit((tx+1+r.Intn(2))%3, 5)
	// A's compound step on $x (the value B left there)
	upd, xFinal := "<<set $x to $x>>", x2
	xFinalShown := x2d
	switch tx {
	case 0:
		upd, xFinal = "<<set $x += 10>>", model.N(x2.N+10)
		xFinalShown = strconv.Itoa(int(xFinal.N))
	case 2:
		upd, xFinal = "<<set $x += \"!\">>", model.S(x2.S+"!")
		xFinalShown = xFinal.S
	}
	a := "title: Start\n---\n<<set $x to " + x1s + ">>\na1 {$x}\n" + upd + "\na2 {$x} {$y}\n<<set $y to " + badY + ">>\na3\n===\n"
	b := "title: Start\n---\nb1 {$x}\n<<set $x to " + x2s + ">>\n<<declare $y = " + ys + ">>\nb2 {$x}\n<<set $x = " + badX + ">>\nb3\n===\n"
	useDef := r.Bool()
	rec := mon.NewRecStorer()
	def := variable.NewInMemoryStorer()
	var st variable.Storer = rec
	if useDef {
		st = def
	}
	ra, err, pan := mon.Create(st, "", []string{a})
	if err != nil || pan != "" {
		c.Violate("the first script of the shared-store pair failed to load", map[string]any{"readers": []string{a}, "error": fmt.Sprint(err), "panic": pan})
		return
	}
	// the second runner is created after the first one took its first step, or before
	var rb *mon.Real
	mkB := func() bool {
		rb, err, pan = mon.Create(st, "", []string{b})
		if err != nil || pan != "" {
			c.Violate("the second script of the shared-store pair failed to load", map[string]any{"readers": []string{b}, "error": fmt.Sprint(err), "panic": pan})
			return false
		}
		return true
	}
	early := r.Bool()
	if early && !mkB() {
		return
	}
	var trace []string
	store := func() map[string]variable.Value {
		if useDef {
			return def.GetValues()
		}
		return rec.GetValues()
	}
	fail := func(what string) {
		c.Violate("two runners over one variable store: "+what, map[string]any{"dialogue_A": a, "dialogue_B": b, "default_store": useDef,
			"second_runner_created_before_the_first_step": early, "trace": trace})
	}
	expectLine := func(who string, rr *mon.Real, text string) bool {
		o := rr.Next(0)
		trace = append(trace, who+": "+o.String())
		if o.Kind != mon.KLine || o.Text != text {
			fail(who + " should show " + strconv.Quote(text) + " (the store is the source of truth for both dialogues)")
			return false
		}
		return true
	}
	expectErr := func(who string, rr *mon.Real, want map[string]model.Val) bool {
		o := rr.Next(0)
		trace = append(trace, who+": "+o.String())
		if o.Kind != mon.KErr {
			fail(who + " assigned a value of another type to a variable the OTHER dialogue created; an error is required")
			return false
		}
		if d := mon.StateDiff(want, store()); d != "" {
			fail("the refused assignment changed the store: " + d)
			return false
		}
		return true
	}
	if !expectLine("A", ra, "a1 "+x1d) {
		return
	}
	if !early && !mkB() {
		return
	}
	if !expectLine("B", rb, "b1 "+x1d) || !expectLine("B", rb, "b2 "+x2d) || !expectLine("A", ra, "a2 "+xFinalShown+" "+yd) {
		return
	}
	want := map[string]model.Val{"x": xFinal, "y": yv}
	if d := mon.StateDiff(want, store()); d != "" {
		fail("store content after both dialogues wrote: " + d)
		return
	}
	if !expectErr("A", ra, want) || !expectErr("B", rb, want) {
		return
	}
	if useDef {
		nums, bools, strs := def.VerifTypedNames()
		if len(nums)+len(bools)+len(strs) != 2 {
			fail(fmt.Sprintf("the default store reports a name under two types (numbers %v, booleans %v, strings %v)", nums, bools, strs))
			return
		}
	} else if len(rec.TypeChanges) > 0 {
		fail("a variable was written under a second type: " + strings.Join(rec.TypeChanges, "; "))
		return
	}
	c.Feature("two-runners-over-one-store")
	c.FeatureN("statements", 8)
}

// restoresAcrossTypes: snapshot B holds $x as a number; an older snapshot A (where $x does not exist) is
// restored, $x then gets a value of another type, and B is restored: the default store holds $x as the
// number again, and only as that.
func (p c03) restoresAcrossTypes(c *core.Ctx) {
	r := c.R
	script := "title: Start\n---\na\n<<jump Two>>\n===\ntitle: Two\n---\n<<set $x to 1>>\n<<set $keep to \"k\">>\n<<jump Three>>\n===\ntitle: Three\n---\nb {$x}\n<<set $x += 1>>\nc {$x}\n===\n"
	def := variable.NewInMemoryStorer()
	rr, err, pan := mon.Create(def, "", []string{script})
	if err != nil || pan != "" {
		c.Violate("the restore-across-types script failed to load", map[string]any{"readers": []string{script}, "error": fmt.Sprint(err), "panic": pan})
		return
	}
	var trace []string
	step := func() mon.Obs { o := rr.Next(0); trace = append(trace, o.String()); return o }
	step()
	snapA := rr.DR.Snapshot()
	step()
	snapB := rr.DR.Snapshot()
	fail := func(what string) {
		c.Violate("after restores between snapshots that hold a variable under different types, "+what, map[string]any{"readers": []string{script}, "trace": trace})
	}
	for round := 0; round < 2; round++ {
		if err := rr.RestoreAt(snapA); err != nil {
			fail("RestoreAt(A) failed: " + err.Error())
			return
		}
		trace = append(trace, "RestoreAt(A)")
		if r.Bool() {
			def.SetStringValue("x", "one")
			trace = append(trace, "host: $x = \"one\"")
		} else {
			def.SetBooleanValue("x", true)
			trace = append(trace, "host: $x = true")
		}
		if err := rr.RestoreAt(snapB); err != nil {
			fail("RestoreAt(B) failed: " + err.Error())
			return
		}
		trace = append(trace, "RestoreAt(B)")
		nums, bools, strs := def.VerifTypedNames()
		seen := map[string]int{}
		for _, l := range [][]string{nums, bools, strs} {
			for _, n := range l {
				seen[n]++
			}
		}
		v, ok := def.GetValue("x")
		all := def.GetValues()
		switch {
		case seen["x"] != 1:
			fail(fmt.Sprintf("the default store holds $x under %d types", seen["x"]))
			return
		case !ok || v.Number == nil || *v.Number != 1:
			fail("GetValue($x) is not the snapshot's number 1")
			return
		case all["x"].Number == nil || *all["x"].Number != 1:
			fail("GetValues() does not report $x as the snapshot's number 1")
			return
		}
		o := step()
		if o.Kind != mon.KLine || o.Text != "b 1" {
			fail("the restored run does not show \"b 1\": " + o.String())
			return
		}
		o = step()
		if o.Kind != mon.KLine || o.Text != "c 2" {
			fail("the restored run does not show \"c 2\" after $x += 1: " + o.String())
			return
		}
	}
	c.Feature("restores-between-snapshots-of-different-types")
}

// hostWritesDuringEvaluation: the right-hand side of an assignment calls a host function that itself writes the
// assigned variable - with another type - into the store. The store is the source of truth: when the value
// is stored the variable HAS a type, so the assignment is refused and the host's value stays.
func (p c03) hostWritesDuringEvaluation(c *core.Ctx) {
	r := c.R
	useDef := r.Bool()
	var st variable.Storer
	rec := mon.NewRecStorer()
	def := variable.NewInMemoryStorer()
	if useDef {
		st = def
	} else {
		st = rec
	}
	kind := r.Intn(3) // what the host writes: 0 string, 1 boolean, 2 number
	ret := []string{"5", "5", "\"five\""}[kind]
	stmt := r.Pick("<<set $hv = hostset()>>", "<<set $hv to hostset()>>", "<<declare $hv = hostset()>>")
	script := "title: Start\n---\nbefore\n" + stmt + "\nafter\n===\n"
	rr, err, pan := mon.Create(st, "", []string{script})
	if err != nil || pan != "" {
		c.Violate("a script whose assignment calls a host function failed to load", map[string]any{"readers": []string{script}, "error": fmt.Sprint(err), "panic": pan})
		return
	}
	rr.DR.AddFunction("hostset", func([]*variable.Value) (*variable.Value, error) {
		switch kind {
		case 0:
			st.SetStringValue("hv", "written by the host")
		case 1:
			st.SetBooleanValue("hv", true)
		default:
			st.SetNumberValue("hv", 77)
		}
		if ret == "5" {
			return variable.NewNumber(5), nil
		}
		return variable.NewString("five"), nil
	})
	o1 := rr.Next(0)
	o2 := rr.Next(0)
	held, ok := st.GetValue("hv")
	hostKept := ok && (kind == 0 && held.String != nil && *held.String == "written by the host" || kind == 1 && held.Boolean != nil && *held.Boolean || kind == 2 && held.Number != nil && *held.Number == 77)
	twoTypes := ""
	if useDef {
		nums, bools, strs := def.VerifTypedNames()
		n := 0
		for _, l := range [][]string{nums, bools, strs} {
			for _, x := range l {
				if x == "hv" {
					n++
				}
			}
		}
		if n > 1 {
			twoTypes = "the default store holds $hv under two types"
		}
	} else if len(rec.TypeChanges) > 0 {
		twoTypes = "the variable was written under a second type: " + strings.Join(rec.TypeChanges, "; ")
	}
	c.Feature("host-writes-the-assigned-variable-during-evaluation")
	if o1.Kind != mon.KLine || o2.Kind != mon.KErr || !hostKept || twoTypes != "" {
		c.Violate("an assignment whose right-hand side made the host write the variable under another type was not refused (the store is the source of truth)", map[string]any{
			"readers": []string{script}, "host_writes": []string{"a string", "a boolean", "a number"}[kind], "function_returns": ret,
			"first": o1.String(), "second": o2.String(), "host_value_kept": hostKept, "two_types": twoTypes})
	}
}

// defaultStoreVersusMap drives the default store directly, as a host does between two steps, with a random
// sequence of typed writes (type-stable per name between two Clear calls), Clear and every kind of read,
// against a plain map: GetValue, Contains and GetValues must tell the same story after every operation
// (the runner's checkpoints and the host's saves are made from GetValues).
func (p c03) defaultStoreVersusMap(c *core.Ctx) {
	r := c.R
	st := variable.NewInMemoryStorer()
	want := map[string]model.Val{}
	names := []string{"a", "b", "c", "вар", "e"}
	var ops []string
	fail := func(what string) {
		c.Violate("the default store does not hold what was last written: "+what, map[string]any{"operations": ops})
	}
	readAll := func() bool {
		got := st.GetValues()
		if d := mon.StateDiff(want, got); d != "" {
			fail("GetValues: " + d)
			return false
		}
		for _, n := range names {
			v, ok := st.GetValue(n)
			w, has := want[n]
			if ok != has || st.Contains(n) != has {
				fail(fmt.Sprintf("GetValue/Contains(%s): stored=%v/%v, want %v", n, ok, st.Contains(n), has))
				return false
			}
			if ok {
				if g, _ := mon.ToVal(v); !model.Same(g, w, true) {
					fail(fmt.Sprintf("GetValue(%s) = %s, want %s", n, g, w))
					return false
				}
			}
		}
		return true
	}
	for i := r.Range(10, 40); i > 0; i-- {
		switch r.PickW(50, 12, 38) {
		case 0:
			n := names[r.Intn(len(names))]
			t := hast.Ty(r.Intn(3))
			if old, ok := want[n]; ok {
				t = old.T
			}
			v := valOf(r, t)
			storeWrite(st, n, v)
			want[n] = v
			ops = append(ops, fmt.Sprintf("Set(%s, %s)", n, v))
		case 1:
			st.Clear()
			want = map[string]model.Val{}
			ops = append(ops, "Clear()")
			c.Feature("default-store:clear")
		default:
			ops = append(ops, "GetValues()+GetValue()+Contains()")
			if !readAll() {
				return
			}
		}
		c.Feature("default-store:operations")
	}
	ops = append(ops, "GetValues()+GetValue()+Contains()")
	readAll()
}

// retypeByReexecution: ONE assignment statement is executed 2-4 times by the same runner (jump loop) and
// its right-hand side - a host function of the pass number - yields a value of another type at some pass.
// Whether an execution succeeds depends on the type the variable has THEN, not on what the statement did
// the first time.
func (p c03) retypeByReexecution(c *core.Ctx) {
	r := c.R
	passes := r.Range(2, 4)
	vals := make([]model.Val, passes)
	for i := range vals {
		vals[i] = valOf(r, hast.Ty(r.Intn(3)))
	}
	if r.Bool() {
		// same type until the last pass
		for i := 1; i < passes-1; i++ {
			vals[i] = valOf(r, vals[0].T)
		}
		for vals[passes-1].T == vals[0].T {
			vals[passes-1] = valOf(r, hast.Ty(r.Intn(3)))
		}
	}
	alt := func(a []model.Val) (model.Val, bool, error) {
		if len(a) != 1 || a[0].T != hast.TNum || int(a[0].N) < 0 || int(a[0].N) >= len(vals) {
			return model.None, false, mon.ErrHost
		}
		return vals[int(a[0].N)], true, nil
	}
	st := &hast.Stmt{K: hast.SSet, Var: "w", Op: "=", X: hast.Call("alt", hast.Var("pass")), ID: 1}
	if r.Chance(1, 4) {
		st.K = hast.SDeclare
	}
	body := []*hast.Stmt{st, {K: hast.SLine, Parts: []hast.Part{hast.Lit("pass "), hast.Inl(hast.Var("pass"))}, ID: 2},
		{K: hast.SIf, Clauses: []*hast.Clause{{
			Cond: hast.Bin("<", hast.Var("pass"), hast.Num(strconv.Itoa(passes-1))),
			Body: []*hast.Stmt{{K: hast.SSet, Var: "pass", Op: "+=", X: hast.Num("1")}, {K: hast.SJump, Target: "Start"}},
		}}},
		{K: hast.SLine, Parts: []hast.Part{hast.Lit("end")}, ID: 3}}
	prog := &hast.Program{Readers: 1, Nodes: []*hast.Node{{Title: "Start", Body: body}}}
	scripts := hast.Render(prog, hast.L0())
	pre := map[string]model.Val{"pass": model.N(0)}
	pair, err, pan := NewPair(prog, scripts, PairOpts{Pre: pre, UseDefaultStore: r.Bool(), ExtraFuncs: map[string]model.Fn{"alt": alt}}, nil)
	if err != nil || pan != "" {
		c.Violate("a generated, syntactically valid script failed to load", map[string]any{"readers": scripts, "error": fmt.Sprint(err), "panic": pan})
		return
	}
	for step := 0; step < 20; step++ {
		want, got, diff := pair.Step(0)
		c.Feature("typed-slot-checks")
		if diff != "" {
			d := pair.Detail(nil, want, got, diff)
			d["values_per_pass"] = fmt.Sprint(vals)
			c.Violate("an assignment statement executed again does not obey the variable's type as it is then: "+diff, d)
			return
		}
		if want.Kind == model.OErr {
			c.Feature("re-executed-assignment-refused-on-type-change")
			break
		}
		if want.Kind == model.OEnd {
			break
		}
	}
	c.Feature("re-executed-assignments")
}

// runHistory executes a history over as many runners as it has failing statements + 1.
func (p c03) runHistory(c *core.Ctx, items []c03item, compound int) {
	r := c.R
	state := map[string]model.Val{}
	pos := 0
	failures, readBack := 0, 0
	var allScripts []string
	segments := 0
	for pos < len(items) && !c.Failed() && segments < 60 {
		segments++
		// a loop block: items[pos:loopEnd] are executed `passes` times
		end := len(items)
		passes := 1
		if r.Chance(1, 2) {
			passes = r.Range(2, 3)
		}
		mkProg := func(to int) (*hast.Program, map[*hast.Stmt][]hostWrite) {
			var body []*hast.Stmt
			hw := map[*hast.Stmt][]hostWrite{}
			for _, it := range items[pos:to] {
				body = append(body, it.stmt)
				if len(it.writes) > 0 {
					hw[it.stmt] = it.writes
				}
			}
			if passes > 1 {
				body = append(body, &hast.Stmt{K: hast.SIf, Clauses: []*hast.Clause{{
					Cond: hast.Bin("<", hast.Var("pass"), hast.Num(strconv.Itoa(passes-1))),
					Body: []*hast.Stmt{{K: hast.SSet, Var: "pass", Op: "+=", X: hast.Num("1")}, {K: hast.SJump, Target: "Start"}},
				}}})
			}
			body = append(body, &hast.Stmt{K: hast.SLine, Parts: []hast.Part{hast.Lit("end of segment")}})
			return &hast.Program{Readers: 1, Nodes: []*hast.Node{{Title: "Start", Body: body}}}, hw
		}
		pre := map[string]model.Val{}
		for k, v := range state {
			pre[k] = v
		}
		pre["pass"] = model.N(0)
		// model-only trial: where does the first failure happen?
		prog, hw := mkProg(end)
		trial := model.New(prog, &model.Host{Funcs: noLogFuncs(), Cmds: noLogCmds()}, pre)
		failStmt := (*hast.Stmt)(nil)
		for i := 0; i < 400; i++ {
			o := trial.Next(0)
			if o.Kind == model.OLine {
				for _, w := range hw[o.Stmt] {
					trial.Vars[w.name] = adaptWrite(trial.Vars, w)
				}
			}
			if o.Kind == model.OErr {
				failStmt = o.Stmt
				break
			}
			if o.Kind != model.OLine {
				break
			}
		}
		if failStmt != nil {
			for i := pos; i < len(items); i++ {
				if items[i].stmt == failStmt {
					end = i + 1
				}
			}
			prog, hw = mkProg(end)
		}
		scripts := hast.Render(prog, hast.L0())
		allScripts = append(allScripts, scripts...)
		useDef := r.Bool()
		if useDef {
			c.Feature("default-store-runs")
		} else {
			c.Feature("recording-store-runs")
		}
		idiom := !useDef && r.Chance(1, 3)
		if idiom {
			// a host store written with the map idiom: unknown names give (&Value{}, false)
			c.Feature("map-idiom-store-runs")
		}
		pair, err, pan := NewPair(prog, scripts, PairOpts{Pre: pre, UseDefaultStore: useDef, MapIdiomStore: idiom}, nil)
		if err != nil || pan != "" {
			c.Violate("a generated, syntactically valid script failed to load", map[string]any{"readers": scripts, "error": fmt.Sprint(err), "panic": pan})
			return
		}
		pendingRead := map[string]bool{}
		restored := false
		for step := 0; step < 400; step++ {
			before := snapshotVars(pair.M.Vars)
			want, got, diff := pair.Step(0)
			c.Event(want.Kind.String(), 1)
			c.Feature("typed-slot-checks")
			if diff != "" {
				c.Violate("variables do not hold what was last successfully assigned: "+diff, pair.Detail(nil, want, got, diff))
				return
			}
			if want.Kind == model.OErr {
				failures++
				c.Feature("failing-statements")
				// the model's state is the state before the failing statement (it applied the
				// statements that precede it in this step); Step compared the store with it
				_ = before
				c.Feature("store-unchanged-on-failure")
				break
			}
			if want.Kind == model.OLine {
				for name := range pendingRead {
					if strings.Contains(want.Text, " "+name+"=") {
						readBack++
						c.Feature("host-write-read-back")
						delete(pendingRead, name)
					}
				}
				for _, w := range hw[want.Stmt] {
					pair.HostWrite(w.name, adaptWrite(pair.M.Vars, w))
					pendingRead[w.name] = true
					c.Feature("host-writes")
				}
				// now and then the host restores the runner from its own snapshot: afterwards the runner must
				// still read and write the store the host supplied (the run resumes at the node entry)
				if !restored && r.Chance(1, 12) {
					restored = true
					snap := pair.R.DR.Snapshot()
					if err := pair.R.RestoreAt(snap); err != nil {
						c.Violate("restoring a runner from its own snapshot failed: "+err.Error(), map[string]any{"readers": scripts})
						return
					}
					pair.M.Restore(pair.M.Check.Clone())
					pair.Trace = append(pair.Trace, "host: RestoreAt(Snapshot())")
					pendingRead = map[string]bool{}
					c.Feature("restore-in-mid-history")
					if d := mon.StateDiff(pair.M.Vars, pair.Store()); d != "" {
						c.Violate("after RestoreAt the host-supplied store does not hold the snapshot's variables: "+d, pair.Detail(nil, want, got, d))
						return
					}
				}
			}
			if want.Kind == model.OEnd || want.Kind == model.OBudget {
				break
			}
		}
		c.FeatureN("statements", pair.M.Stats["stmts"])
		if passes > 1 {
			c.FeatureN("statement-executed-again", (end-pos)*(passes-1))
		}
		c.FeatureN("statements", end-pos)
		state = snapshotVars(pair.M.Vars)
		delete(state, "pass")
		pos = end
	}
	c.Feature("histories")
	if compound > 0 && (failures > 0 || readBack > 0) {
		c.Nontrivial(strings.Join(allScripts, "\x00"))
	}
	if c.WantSample() && failures > 0 && readBack > 0 {
		c.Sample(map[string]any{"scripts_of_the_history": allScripts, "failing_statements": failures, "host_writes_read_back": readBack})
	}
}

// adaptWrite keeps a host write from retyping a variable: when the variable
// currently holds another type than planned, a value of its current type is written.
func adaptWrite(vars map[string]model.Val, w hostWrite) model.Val {
	cur, ok := vars[w.name]
	if !ok || cur.T == w.val.T {
		return w.val
	}
	switch cur.T {
	case hast.TNum:
		return model.N(float64(len(w.val.S)) + 11)
	case hast.TBool:
		return model.B(!cur.B)
	}
	return model.S("host:" + w.val.String())
}

func snapshotVars(m map[string]model.Val) map[string]model.Val {
	c := make(map[string]model.Val, len(m))
	for k, v := range m {
		c[k] = v
	}
	return c
}

// table runs the complete assignment table.
func (p c03) table(c *core.Ctx) {
	cur := map[string]*model.Val{"absent": nil, "number": {T: hast.TNum, N: 6}, "boolean": {T: hast.TBool, B: true}, "string": {T: hast.TStr, S: "cur"}}
	assigned := map[string]*hast.Expr{"number": hast.Num("4"), "boolean": hast.Bool(false), "string": hast.Str("new")}
	kinds := append([]string{}, curKinds...)
	sort.Strings(kinds)
	run := func(row string, st *hast.Stmt, pre map[string]model.Val) {
		for _, useDef := range []bool{false, true} {
			prog := &hast.Program{Readers: 1, Nodes: []*hast.Node{{Title: "Start", Body: []*hast.Stmt{
				st,
				{K: hast.SLine, Parts: []hast.Part{hast.Lit("v="), hast.Inl(hast.Var("v"))}},
			}}}}
			scripts := hast.Render(prog, hast.L0())
			pair, err, pan := NewPair(prog, scripts, PairOpts{Pre: pre, UseDefaultStore: useDef}, nil)
			if err != nil || pan != "" {
				c.Violate("a table row failed to load", map[string]any{"readers": scripts, "error": fmt.Sprint(err), "panic": pan})
				return
			}
			for step := 0; step < 3; step++ {
				want, got, diff := pair.Step(0)
				c.Event(want.Kind.String(), 1)
				if diff != "" {
					c.Violate("assignment table row "+row+": "+diff, pair.Detail(nil, want, got, diff))
					return
				}
				if want.Kind == model.OErr {
					c.Feature("failing-statements")
					c.Feature("store-unchanged-on-failure")
				}
				if want.Kind != model.OLine {
					break
				}
			}
			c.Feature(row)
			c.Nontrivial(row, fmt.Sprint(useDef))
		}
	}
	// rows in which the assigned value equals the current one (a write that "changes nothing" for =,
	// but not for the compound operators)
	for _, op := range assignOps {
		run("row:same-value:"+op+":number", &hast.Stmt{K: hast.SSet, Var: "v", Op: op, X: hast.Num("4")}, map[string]model.Val{"v": model.N(4)})
		run("row:same-value:"+op+":string", &hast.Stmt{K: hast.SSet, Var: "v", Op: op, X: hast.Str("new")}, map[string]model.Val{"v": model.S("new")})
		run("row:same-value:"+op+":boolean", &hast.Stmt{K: hast.SSet, Var: "v", Op: op, X: hast.Bool(false)}, map[string]model.Val{"v": model.B(false)})
		run("row:same-value:"+op+":self", &hast.Stmt{K: hast.SSet, Var: "v", Op: op, X: hast.Var("v")}, map[string]model.Val{"v": model.N(3)})
		if c.Failed() {
			return
		}
	}
	for _, ck := range kinds {
		pre := map[string]model.Val{"other": model.N(1)}
		if cur[ck] != nil {
			pre["v"] = *cur[ck]
		}
		for _, as := range tyNames {
			for _, op := range assignOps {
				run("row:set:"+op+":"+ck+":"+as, &hast.Stmt{K: hast.SSet, Var: "v", Op: op, X: assigned[as]}, pre)
				if c.Failed() {
					return
				}
			}
			run("row:declare:"+ck+":"+as, &hast.Stmt{K: hast.SDeclare, Var: "v", X: assigned[as]}, pre)
			if c.Failed() {
				return
			}
		}
	}
	c.Sample(map[string]any{"table_rows": len(kinds) * 3 * 7, "example": "<<set $v %= \"new\">> with $v a number must fail and leave $v = 6"})
}
