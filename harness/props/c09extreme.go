package props

import (
	"fmt"
	"math"
	"sort"
	"strconv"

	"github.com/remieven/ysgo/internal/rng"
	"github.com/remieven/ysgo/variable"
	"github.com/remieven/ysgo/verifharness/core"
	"github.com/remieven/ysgo/verifharness/mon"
)

// extremes: random() must stay below 1 (and at or above 0) for every seed; a violation can only show at
// the draws that fall next to a bound, about one in 2^25 for a result that was narrowed to single
// precision somewhere. Sampling seeds blindly would need 10^8 script-level draws per run, so the workload
// is aimed: the harness walks the generator itself (internal/rng, the same constructor the runner uses)
// over about 10^8 draws of PRNG-chosen seeds, keeps the draws closest to 1 and to 0, and then makes the
// REAL runner produce exactly those draws - a script that calls random() k+1 times under that seed - and
// checks every value the script-level function returned. The search only chooses where to look; the
// verdict is on what random() returned through the runner.
func (c09) extremes(c *core.Ctx) {
	r := c.R
	type hit struct {
		seed string
		k    int
		v    float64
	}
	const perSeed = 2000
	seeds := 24000
	if c.Thorough() {
		seeds = 60000
	}
	var hi, lo []hit
	base := r.U64() % (1 << 40)
	for s := 0; s < seeds; s++ {
		seed := strconv.FormatUint(base+uint64(s)*7919, 36)
		g, err := rng.NewRNG(seed)
		if err != nil {
			continue
		}
		for k := 0; k < perSeed; k++ {
			v := g.Float()
			if v >= 1-0x1p-23 {
				hi = append(hi, hit{seed, k, v})
			} else if v < 0x1p-26 {
				lo = append(lo, hit{seed, k, v})
			}
		}
	}
	c.FeatureN("extreme-search:draws-walked", seeds*perSeed)
	sort.Slice(hi, func(i, j int) bool { return hi[i].v > hi[j].v })
	sort.Slice(lo, func(i, j int) bool { return lo[i].v < lo[j].v })
	if len(hi) > 10 {
		hi = hi[:10]
	}
	if len(lo) > 3 {
		lo = lo[:3]
	}
	for _, h := range append(hi, lo...) {
		script := "title: Start\n---\n<<set $i to 0>>\n<<jump Loop>>\n===\ntitle: Loop\n---\n<<call obs($i, random())>>\n<<set $i to $i + 1>>\n<<if $i <= " + strconv.Itoa(h.k) + ">>\n<<jump Loop>>\n<<endif>>\ndone\n===\n"
		rr, err, pan := mon.Create(nil, h.seed, []string{script})
		if err != nil || pan != "" {
			c.Violate("a draw-loop script could not be created", map[string]any{"readers": []string{script}, "seed": h.seed, "error": fmt.Sprint(err), "panic": pan})
			return
		}
		var got []float64
		bad := -1
		rr.DR.AddFunction("obs", func(a []*variable.Value) (*variable.Value, error) {
			if len(a) == 2 && a[1] != nil && a[1].Number != nil {
				v := *a[1].Number
				if !(v >= 0 && v < 1) && bad < 0 {
					bad = len(got)
				}
				got = append(got, v)
			}
			return nil, nil
		})
		o := rr.Next(0)
		if o.Kind != mon.KLine || len(got) != h.k+1 {
			c.Violate(fmt.Sprintf("a loop of %d random() calls did not complete: %s (%d values captured)", h.k+1, o, len(got)), map[string]any{"readers": []string{script}, "seed": h.seed})
			return
		}
		c.FeatureN("range-draws:random", len(got))
		c.Feature("extreme-draws-driven-through-the-runner")
		if bad >= 0 {
			c.Violate("random() left [0,1)", map[string]any{"readers": []string{script}, "seed": h.seed, "draw_index": bad,
				"value": strconv.FormatFloat(got[bad], 'g', -1, 64), "bits": fmt.Sprintf("%#x", math.Float64bits(got[bad])),
				"generator_value_at_that_draw": strconv.FormatFloat(h.v, 'g', -1, 64)})
			return
		}
		// did the runner really produce the draw the search aimed at? (coverage evidence, not a verdict:
		// nothing says which generator the runner uses)
		if got[h.k] == h.v {
			c.Feature("extreme-draws-reproduced-by-the-runner")
			if h.v >= 1-0x1p-25 {
				c.Feature("extreme-draws>=1-2^-25")
			}
			if h.v >= 1-0x1p-24 {
				c.Feature("extreme-draws>=1-2^-24")
			}
			if h.v < 0x1p-26 {
				c.Feature("extreme-draws<2^-26")
			}
		} else {
			c.Feature("extreme-draws-not-reproduced")
		}
	}
}

// interleaved: runner A is created, then other runners are created (and partly driven) before and while A
// is driven; A must run exactly as it does alone.
func (c09) interleaved(c *core.Ctx, scripts []string, seed string, choiceSeed uint64, alone string, summary string) {
	r := c.R
	others := 0
	hook := func(step int) {
		if step == 0 || r.Chance(1, 6) {
			other := []string{"", "x", "zz9", "0", seed + "1", seed}[r.Intn(6)]
			if r.Bool() {
				// only created, never driven
				mon.Create(nil, other, scripts)
			} else {
				c09Exec(scripts, other, r.U64())
			}
			others++
		}
	}
	d, s := c09ExecHooked(scripts, seed, choiceSeed, hook)
	c.Feature("executions-in-process")
	c.FeatureN("runners-created-while-another-was-alive", others)
	if d != alone {
		c.Violate("an execution differs when other runners are created and driven between its creation and its steps", map[string]any{
			"readers": scripts, "seed": seed, "choice_seed": choiceSeed, "execution_alone": summary, "execution_interleaved": s, "other_runners": others})
	}
}
