package props

import (
	"fmt"
	"reflect"
	"strings"
	"time"
	"unicode/utf8"

	"github.com/remieven/ysgo/markup"
	"github.com/remieven/ysgo/verifharness/core"
	"github.com/remieven/ysgo/verifharness/gen"
)

// C15 — markup parsing is total and its results are safe to use.
type c15 struct{}

func init() { core.Register(c15{}) }

func (c15) ID() string { return "C15" }

// EvalFeatures names the counters of judged executions.
func (c15) EvalFeatures() []string { return []string{"inputs"} }

func (c15) Cases(tier string) int {
	if tier == "thorough" {
		return 100000
	}
	return 1500
}

func (c15) HangIsViolation() bool { return true }

// CaseTimeout: a case is a few hundred parses and takes milliseconds; one that is silent for 30 s hangs.
func (c15) CaseTimeout(tier string) time.Duration { return 30 * time.Second }

func (c15) ChildTimeout(tier string) time.Duration {
	if tier == "thorough" {
		return 90 * time.Minute
	}
	// a quick chunk takes well under a second; a child that is silent for two minutes hangs (the suspect case
	// is then re-run alone under the same limit before it counts)
	return 2 * time.Minute
}

func (c15) Thresholds(tier string) map[string]int64 {
	return map[string]int64{
		"inputs":            250000,
		"class:hostile":     100000,
		"class:truncation":  50000,
		"class:well-formed": 50000,
		"class:characters-split-over-nomarkup-sections": 20000,
		"results-from-split-characters":                 10000,
		"results":                                       80000,
		"errors":                                        80000,
		"attributes-checked":                            80000,
		"invalid-utf8-inputs":                           20000,
		"edge-whitespace-inputs":                        20000,
		"results-rechecked-after-later-parses":          80000,
		"invalid-utf8-reached-the-text":                 200,
	}
}

func (c15) Rule() string {
	return "case = 200 strings parsed one after the other on ONE parser value: assemblies from a weighted alphabet of marker fragments and hostile bytes ([ ] / = \" \\\\ : blanks, names of the replacement markers, digits, multi-byte, astral, invalid UTF-8 bytes, NUL; length <=64), byte-level truncations of well-formed lines, and well-formed lines. Oracle: ParseMarkup returns (panics are caught and reported, a call that does not return is caught by the child watchdog and confirmed by re-running the case alone); for every result each attribute has Position >= 0, Length >= 0 and Position+Length <= number of characters of Text, and TextForAttribute of every returned attribute returns; every result is checked again (deep equality with a copy, ranges, TextForAttribute) after all later strings of the case were parsed on the same parser value. Non-trivial: the input contains '['. Distinct by hash of the input. A fourth input class (11%) writes multi-byte characters piecewise through consecutive [nomarkup] sections, with markers opened, closed and self-closed between the pieces (the character count of the text under construction goes down when the last piece arrives)."
}

func (c15) Assumptions() []string {
	return []string{
		"characters are counted as Go counts runes (an invalid UTF-8 byte is one character), which is how TextForAttribute slices the text",
		"errors are fine: only panics, non-termination and unusable results refute the property",
	}
}

func copyResult(r *markup.ParseResult) *markup.ParseResult {
	c := &markup.ParseResult{Text: r.Text}
	for _, a := range r.Attributes {
		b := a
		b.Properties = map[string]markup.Value{}
		for k, v := range a.Properties {
			b.Properties[k] = v
		}
		c.Attributes = append(c.Attributes, b)
	}
	return c
}

func resultEqual(a, b *markup.ParseResult) bool {
	if a.Text != b.Text || len(a.Attributes) != len(b.Attributes) {
		return false
	}
	for i := range a.Attributes {
		x, y := a.Attributes[i], b.Attributes[i]
		if x.Name != y.Name || x.Position != y.Position || x.Length != y.Length || x.SourcePosition != y.SourcePosition {
			return false
		}
		if len(x.Properties) != len(y.Properties) {
			return false
		}
		for k, v := range x.Properties {
			if w, ok := y.Properties[k]; !ok || !reflect.DeepEqual(v, w) {
				return false
			}
		}
	}
	return true
}

// usable checks the range predicates of C15 on a result ("" = fine).
func usable(c *core.Ctx, res *markup.ParseResult) string {
	n := utf8.RuneCountInString(res.Text)
	if n != len([]rune(res.Text)) {
		n = len([]rune(res.Text))
	}
	for _, a := range res.Attributes {
		if c != nil {
			c.Feature("attributes-checked")
		}
		if a.Position < 0 || a.Length < 0 || a.Position+a.Length > n {
			return fmt.Sprintf("attribute %q has range [%d,+%d] outside the %d characters of the text", a.Name, a.Position, a.Length, n)
		}
		if _, pan := textFor(res, a); pan != "" {
			return fmt.Sprintf("TextForAttribute(%q [%d,+%d]) panicked: %s", a.Name, a.Position, a.Length, pan)
		}
	}
	return ""
}

func (p c15) Run(c *core.Ctx) {
	r := c.R
	var lp markup.LineParser
	type kept struct {
		in   string
		res  *markup.ParseResult
		copy *markup.ParseResult
	}
	var keep []kept
	for i := 0; i < 200; i++ {
		var in, class string
		switch r.PickW(45, 22, 22, 11) {
		case 3:
			in, class = gen.SplitBytesMarkup(r), "characters-split-over-nomarkup-sections"
		case 0:
			in, class = gen.HostileMarkup(r), "hostile"
			if r.Chance(1, 8) || c.Thorough() && r.Chance(1, 4) {
				in = gen.HostileMarkupN(r, 40, 400) // longer assemblies: replacement markers that expand, then more markers
				c.Feature("long-hostile-assemblies")
			}
		case 1:
			in, class = gen.Truncation(r), "truncation"
		default:
			in, class = gen.Markup(r).Src, "well-formed"
		}
		c.Feature("inputs")
		c.Feature("class:" + class)
		if !utf8.ValidString(in) {
			c.Feature("invalid-utf8-inputs")
		}
		if strings.TrimSpace(in) != in {
			c.Feature("edge-whitespace-inputs")
		}
		res, err, pan := parseDirect(&lp, in)
		if pan != "" {
			c.Violate("ParseMarkup panicked", map[string]any{"input": in, "input_quoted": fmt.Sprintf("%q", in), "panic": pan})
			return
		}
		if err != nil {
			c.Feature("errors")
			continue
		}
		if res == nil {
			c.Violate("ParseMarkup returned neither a result nor an error", map[string]any{"input_quoted": fmt.Sprintf("%q", in)})
			return
		}
		c.Feature("results")
		if class == "characters-split-over-nomarkup-sections" {
			c.Feature("results-from-split-characters")
		}
		if !utf8.ValidString(res.Text) {
			c.Feature("invalid-utf8-reached-the-text")
		}
		if d := usable(c, res); d != "" {
			c.Violate("a markup result is not safe to use: "+d, map[string]any{"input": in, "input_quoted": fmt.Sprintf("%q", in), "text": fmt.Sprintf("%q", res.Text), "attributes": describeGot(res)})
			return
		}
		if strings.Contains(in, "[") {
			c.Nontrivial(in)
		}
		keep = append(keep, kept{in, res, copyResult(res)})
		if c.WantSample() && class == "hostile" && len(res.Attributes) > 0 {
			c.Sample(map[string]any{"input_quoted": fmt.Sprintf("%q", in), "text": fmt.Sprintf("%q", res.Text), "attributes": describeGot(res)})
		}
	}
	// results handed out earlier must still be what they were, and still usable
	for _, k := range keep {
		c.Feature("results-rechecked-after-later-parses")
		if !resultEqual(k.res, k.copy) {
			c.Violate("a result changed after later strings were parsed on the same parser value", map[string]any{"input_quoted": fmt.Sprintf("%q", k.in), "was": describeGot(k.copy), "is_now": describeGot(k.res), "text": fmt.Sprintf("%q", k.res.Text)})
			return
		}
		if d := usable(nil, k.res); d != "" {
			c.Violate("a result is no longer safe to use after later strings were parsed on the same parser value: "+d, map[string]any{"input_quoted": fmt.Sprintf("%q", k.in)})
			return
		}
	}
}
