// Package props holds one driver per property.
package props

import (
	"fmt"
	"strings"

	"github.com/remieven/ysgo/variable"
	"github.com/remieven/ysgo/verifharness/core"
	"github.com/remieven/ysgo/verifharness/hast"
	"github.com/remieven/ysgo/verifharness/model"
	"github.com/remieven/ysgo/verifharness/mon"
)

// Pair runs the model and the real runner side by side on one program.
type Pair struct {
	Prog    *hast.Program
	Scripts []string
	M       *model.Machine
	R       *mon.Real
	MLog    *mon.HostLog
	RLog    *mon.HostLog
	Rec     *mon.RecStorer           // nil when the default store is used
	Def     *variable.InMemoryStorer // nil when the recording store is used
	mSeen   int
	rSeen   int
	Steps   int
	Trace   []string // human-readable account of the run so far
	garbage *core.Rand
	// NoGarbage makes the pair pass 0 where the argument of Next must not matter.
	NoGarbage bool
}

// PairOpts configures NewPair.
type PairOpts struct {
	UseDefaultStore bool
	Pre             map[string]model.Val // host pre-population of the store
	Seed            string
	ExtraFuncs      map[string]model.Fn // additional host functions (same for both sides)
	ExtraCmds       []string            // additional logging commands registered under these names
	MapIdiomStore   bool                // the recording store answers unknown names with (&Value{}, false)
}

// NewPair creates both sides. loadErr/panicked report a failure of NewDialogueRunner.
func NewPair(prog *hast.Program, scripts []string, o PairOpts, garbage *core.Rand) (p *Pair, loadErr error, panicked string) {
	p = &Pair{Prog: prog, Scripts: scripts, MLog: &mon.HostLog{}, RLog: &mon.HostLog{}, garbage: garbage}
	mfuncs := mon.FlowFuncs(p.MLog)
	rfuncs := mon.FlowFuncs(p.RLog)
	for k, f := range o.ExtraFuncs {
		mfuncs[k] = f
		rfuncs[k] = f
	}
	mcmds, rcmds := mon.FlowCmds(p.MLog), mon.FlowCmds(p.RLog)
	for _, name := range o.ExtraCmds {
		name := name
		mcmds[name] = func(a []model.Val) error { p.MLog.Add("<<" + name + " " + mon.FmtArgs(a) + ">>"); return nil }
		rcmds[name] = func(a []model.Val) error { p.RLog.Add("<<" + name + " " + mon.FmtArgs(a) + ">>"); return nil }
	}
	// bump(): a host function with a side effect on the variable store (it increments $cnt through the
	// store and returns the new value), so that the ORDER in which operands and arguments are evaluated
	// is observable even when no other function is involved
	mfuncs["bump"] = func(a []model.Val) (model.Val, bool, error) {
		nv := model.N(p.M.Vars["cnt"].N + 1)
		p.M.Vars["cnt"] = nv
		p.MLog.Add("bump()=" + nv.String())
		return nv, true, nil
	}
	rfuncs["bump"] = func(a []model.Val) (model.Val, bool, error) {
		cur := 0.0
		if p.Rec != nil {
			cur = p.Rec.Vals()["cnt"].N
		} else if v, ok := p.Def.GetValue("cnt"); ok && v.Number != nil {
			cur = *v.Number
		}
		nv := model.N(cur + 1)
		if p.Rec != nil {
			p.Rec.HostSet("cnt", nv)
		} else {
			p.Def.SetNumberValue("cnt", nv.N)
		}
		p.RLog.Add("bump()=" + nv.String())
		return nv, true, nil
	}
	// the game has a command of its own called "stop" (say, for the music): <<stop>> is the dialogue's own
	// statement and never reaches it
	rcmds["stop"] = func(a []model.Val) error {
		p.RLog.Add("<<stop " + mon.FmtArgs(a) + ">> DISPATCHED TO THE HOST'S HANDLER")
		return nil
	}
	// wipe(): a host function that clears the variable store it was given (a "new game" button wired to a
	// script function) and returns 1
	mfuncs["wipe"] = func(a []model.Val) (model.Val, bool, error) {
		for k := range p.M.Vars {
			delete(p.M.Vars, k)
		}
		p.MLog.Add("wipe()")
		return model.N(1), true, nil
	}
	rfuncs["wipe"] = func(a []model.Val) (model.Val, bool, error) {
		if p.Rec != nil {
			for k := range p.Rec.Vals() {
				delete(p.Rec.Vals(), k)
			}
		} else {
			p.Def.Clear()
		}
		p.RLog.Add("wipe()")
		return model.N(1), true, nil
	}
	host := &model.Host{Funcs: mfuncs, Cmds: mcmds}
	p.M = model.New(prog, host, o.Pre)
	var st variable.Storer
	if o.UseDefaultStore {
		p.Def = variable.NewInMemoryStorer()
		for k, v := range o.Pre {
			storeWrite(p.Def, k, v)
		}
		st = p.Def
	} else {
		p.Rec = mon.NewRecStorer()
		p.Rec.MapIdiom = o.MapIdiomStore
		for k, v := range o.Pre {
			p.Rec.HostSet(k, v)
		}
		st = p.Rec
	}
	r, err, pan := mon.Create(st, o.Seed, scripts)
	if pan != "" || err != nil {
		return p, err, pan
	}
	p.R = r
	r.Keep = true
	// one host in two writes into the tag slices of the elements it is handed
	r.Scribble = garbage != nil && garbage.Intn(2) == 0
	r.Install(rfuncs, rcmds)
	return p, nil, ""
}

func storeWrite(st variable.Storer, name string, v model.Val) {
	switch v.T {
	case hast.TNum:
		st.SetNumberValue(name, v.N)
	case hast.TBool:
		st.SetBooleanValue(name, v.B)
	case hast.TStr:
		st.SetStringValue(name, v.S)
	}
}

// HostWrite performs a host-side write on both sides.
func (p *Pair) HostWrite(name string, v model.Val) {
	p.M.Vars[name] = v
	if p.Rec != nil {
		p.Rec.HostSet(name, v)
	} else {
		storeWrite(p.Def, name, v)
	}
	p.Trace = append(p.Trace, fmt.Sprintf("host writes $%s = %s", name, v))
}

// Store returns the real store's content.
func (p *Pair) Store() map[string]variable.Value {
	if p.Rec != nil {
		w, r := p.Rec.Writes, p.Rec.Reads
		m := p.Rec.GetValues()
		p.Rec.Writes, p.Rec.Reads = w, r
		return m
	}
	return p.Def.GetValues()
}

// garbageArg is what is passed to Next when the argument must be ignored.
func (p *Pair) garbageArg() int {
	if p.NoGarbage || p.garbage == nil {
		return 0
	}
	switch p.garbage.Intn(6) {
	case 0:
		return 0
	case 1:
		return -1
	case 2:
		return 1 << 40
	case 3:
		return -(1 << 62)
	case 4:
		return 7
	}
	return p.garbage.Intn(5)
}

// Step advances both sides and compares. diff is "" when they agree.
func (p *Pair) Step(choice int) (want model.Outcome, got mon.Obs, diff string) {
	waiting := p.M.Waiting()
	arg := choice
	if !waiting {
		arg = p.garbageArg()
	}
	want = p.M.Next(choice)
	if want.Kind == model.OBudget {
		return want, got, ""
	}
	got = p.R.Next(arg)
	p.Steps++
	p.Trace = append(p.Trace, fmt.Sprintf("Next(%d): model=%s  ysgo=%s", arg, outcomeString(want), got))
	if d := mon.Compare(want, got); d != "" {
		return want, got, d
	}
	mNew, rNew := p.MLog.E[p.mSeen:], p.RLog.E[p.rSeen:]
	p.mSeen, p.rSeen = len(p.MLog.E), len(p.RLog.E)
	if want.Kind != model.OErr {
		// On an error the property texts do not say how much of the failing statement
		// was evaluated before the fault was noticed, so host events are compared only
		// for steps that succeed.
		if d := mon.LogDiff(mNew, rNew); d != "" {
			return want, got, d + fmt.Sprintf(" (model %v, ysgo %v)", mNew, rNew)
		}
	}
	if d := mon.StateDiff(p.M.Vars, p.Store()); d != "" {
		return want, got, "variable store differs from the model after this step: " + d
	}
	if p.Rec != nil && len(p.Rec.TypeChanges) > 0 {
		return want, got, "a variable was written under a second type: " + strings.Join(p.Rec.TypeChanges, "; ")
	}
	if p.Def != nil {
		// the default store's typed view, read through the verif hook
		nums, bools, strs := p.Def.VerifTypedNames()
		seen := map[string]string{}
		for kind, list := range map[string][]string{"number": nums, "boolean": bools, "string": strs} {
			for _, n := range list {
				if other, dup := seen[n]; dup {
					return want, got, fmt.Sprintf("the store reports $%s under two types (%s and %s)", n, other, kind)
				}
				seen[n] = kind
			}
		}
	}
	return want, got, ""
}

func outcomeString(o model.Outcome) string {
	switch o.Kind {
	case model.OLine:
		return fmt.Sprintf("line[%s] %q tags=%v", o.Node, o.Text, o.Tags)
	case model.OOptions:
		var s []string
		for _, x := range o.Opts {
			s = append(s, fmt.Sprintf("%q tags=%v disabled=%v", x.Text, x.Tags, x.Disabled))
		}
		return fmt.Sprintf("options[%s] {%s}", o.Node, strings.Join(s, " | "))
	case model.OEnd:
		return "end"
	case model.OErr:
		return "error(" + o.Why + ")"
	}
	return "budget"
}

// Detail builds the replay detail of a flow case.
func (p *Pair) Detail(choices []int, want model.Outcome, got mon.Obs, diff string) map[string]any {
	return map[string]any{
		"readers":  p.Scripts,
		"choices":  choices,
		"trace":    p.Trace,
		"expected": outcomeString(want),
		"observed": got.String(),
		"diff":     diff,
	}
}

// pathExplorer enumerates choice sequences of a program systematically: the first
// path always chooses option 0; every choice point met adds its siblings to the
// work list (bounded).
type pathExplorer struct {
	queue [][]int
	seen  map[string]bool
	max   int
	done  int
}

func newExplorer(max int) *pathExplorer {
	return &pathExplorer{queue: [][]int{{}}, seen: map[string]bool{"": true}, max: max}
}

func (e *pathExplorer) next() ([]int, bool) {
	if len(e.queue) == 0 || e.done >= e.max {
		return nil, false
	}
	p := e.queue[0]
	e.queue = e.queue[1:]
	e.done++
	return p, true
}

// offer registers the siblings of a choice point reached with the given prefix.
func (e *pathExplorer) offer(prefix []int, n int, r *core.Rand) {
	if len(e.queue) > 4*e.max {
		return
	}
	for alt := 1; alt < n; alt++ {
		q := append(append([]int{}, prefix...), alt)
		k := fmt.Sprint(q)
		if !e.seen[k] {
			e.seen[k] = true
			e.queue = append(e.queue, q)
		}
	}
	// keep the work list from being dominated by the deepest choice points
	if r != nil && len(e.queue) > 2 {
		i := r.Intn(len(e.queue))
		e.queue[0], e.queue[i] = e.queue[i], e.queue[0]
	}
}

// pathRun is the state of one explored path.
type pathRun struct {
	pair    *Pair
	choices []int
	chose   int
	last    model.Outcome
	end     model.OK
	steps   int
}

// explorePaths drives a program along systematically enumerated choice paths,
// comparing every step with the model. perStep (optional) adds property-specific
// checks after each agreeing step and returns a diff; perPath is called at the end
// of every path that did not diverge. It returns false after a violation.
func explorePaths(c *core.Ctx, what string, prog *hast.Program, scripts []string, mk func() PairOpts, maxPaths int,
	perStep func(pr *pathRun, want model.Outcome, got mon.Obs) string, perPath func(pr *pathRun)) bool {
	ex := newExplorer(maxPaths)
	for {
		prefix, ok := ex.next()
		if !ok {
			return true
		}
		pair, err, pan := NewPair(prog, scripts, mk(), c.R.Fork())
		if pan != "" || err != nil {
			c.Violate("a generated, syntactically valid program failed to load", map[string]any{"readers": scripts, "error": fmt.Sprint(err), "panic": pan})
			return false
		}
		pr := &pathRun{pair: pair, end: model.OBudget}
		for step := 0; step < 400; step++ {
			choice := 0
			if pair.M.Waiting() {
				n := pair.M.NumOptions()
				if len(pr.choices) < len(prefix) {
					choice = prefix[len(pr.choices)]
					if choice >= n {
						choice = n - 1
					}
				} else {
					ex.offer(pr.choices, n, c.R)
				}
				pr.choices = append(pr.choices, choice)
				pr.chose++
				if pr.last.Kind == model.OOptions && choice < len(pr.last.Opts) && pr.last.Opts[choice].Disabled {
					c.Feature("disabled-option-chosen")
				}
			} else {
				c.Feature("garbage-arg-after-non-option")
			}
			want, got, diff := pair.Step(choice)
			if want.Kind == model.OBudget {
				c.Discard()
				break
			}
			pr.steps++
			c.Event(want.Kind.String(), 1)
			if diff == "" && perStep != nil {
				diff = perStep(pr, want, got)
			}
			if diff != "" {
				c.Violate(what+": "+diff, pair.Detail(pr.choices, want, got, diff))
				return false
			}
			pr.last = want
			if want.Kind == model.OEnd || want.Kind == model.OErr {
				pr.end = want.Kind
				break
			}
		}
		if d := pair.R.Recheck(); d != "" {
			c.Violate(what+": an element Next returned earlier changed while the dialogue went on (the host keeps what it was given): "+d, pair.Detail(pr.choices, pr.last, mon.Obs{}, d))
			return false
		}
		c.FeatureN("returned-elements-rechecked-at-the-end-of-the-path", pair.R.KeptCount())
		c.Feature("paths")
		for k, v := range pair.M.Stats {
			c.FeatureN(k, v)
		}
		c.MaxOf("continuation-depth", pair.M.MaxDepth)
		if perPath != nil {
			perPath(pr)
		}
	}
}

// shapeFeatures records two program shapes of the flow generator in the evidence.
func shapeFeatures(c *core.Ctx, prog *hast.Program) {
	seen := map[string]bool{}
	dup := false
	for i, n := range prog.Nodes {
		if seen[n.Title] {
			dup = true
		}
		seen[n.Title] = true
		if i > 0 && n.Title == "Start" && prog.Nodes[0].Title != "Start" {
			c.Feature("program-whose-Start-node-is-not-first")
		}
	}
	if dup {
		c.Feature("program-with-a-title-defined-twice")
	}
	if len(prog.Nodes) > 0 && prog.Nodes[0].Title == "" {
		c.Feature("program-whose-first-node-has-an-empty-title")
	}
}
