package props

import (
	"fmt"
	"github.com/remieven/ysgo/variable"
	"strings"

	"github.com/remieven/ysgo/verifharness/core"
	"github.com/remieven/ysgo/verifharness/gen"
	"github.com/remieven/ysgo/verifharness/hast"
	"github.com/remieven/ysgo/verifharness/model"
	"github.com/remieven/ysgo/verifharness/mon"
)

// C12 — the end of the dialogue is absorbing.
type c12 struct{}

func init() { core.Register(c12{}) }

func (c12) ID() string { return "C12" }

// EvalFeatures names the counters of judged executions.
func (c12) EvalFeatures() []string {
	return []string{"paths", "stop-with-words-reported-the-end", "stop-with-words-refused", "tail:absorbing-checked"}
}

func (c12) Cases(tier string) int {
	if tier == "thorough" {
		return 120000
	}
	return 3000
}

func (c12) Thresholds(tier string) map[string]int64 {
	return map[string]int64{
		"program-whose-Start-node-is-not-first":     100,
		"end-by-stop":                               500,
		"end-by-node-end":                           500,
		"stop-with-statements-left":                 300,
		"stop-nested":                               200,
		"end-right-after-option-group":              200,
		"end-after-empty-chosen-body":               100,
		"extra-next-calls":                          20000,
		"stops-nested-7-to-14-blocks-deep":          500,
		"ends-followed-by-700-further-calls":        40,
		"restore-after-end-revives":                 300,
		"refused-restore-after-the-end":             300,
		"end-with-ysgo-statements-left=0":           500,
		"stop-with-words-reported-the-end":          1000,
		"tail:absorbing-checked:A":                  500,
		"tail:absorbing-checked:B":                  300,
		"tail:absorbing-checked:C":                  300,
		"tail:end-reported-after-a-pending-command": 300,
	}
}

func (c12) Rule() string {
	return "case = one generated program with a raised share of <<stop>> statements (at nesting depth 0-6, with statements after the stop in the same and in enclosing bodies) and of option groups that end a node (some with empty bodies); every enumerated path is driven to its end, then 10 further Next calls are made with arguments drawn from {0,1,-1,7,maxint,minint}. Oracle: each returns (nil,nil) without panicking and without any host-function, command or variable-store write event (recorded at the host boundary); finally a snapshot taken at the end is restored and the runner must run again exactly as the model does from that node entry. One case in four lets a host function panic in mid-node (string, number, struct or error value): nothing is predicted about that call, but if it reports the end the end must be absorbing. One end in sixty is followed by 700 further calls instead of 10, and one case in four also runs a <<stop>> nested 7-14 blocks deep (if bodies and chosen option bodies in turn, a line after every block). A second sub-workload writes the stop with extra words (<<stop now>>, <<stop {\"why\"}>>) nested 0-4 levels deep with statements after it at every level; nothing is predicted about such a command, but IF the runner reports the end, the end must be absorbing. A third sub-workload lets the end meet commands: (A) an asynchronous command (7 handler shapes, completion after 1-4 polls or only after the end was reported, with an error or nil) is the very last statement of the dialogue, nested 0-3 levels deep; (B) the game registered a command named stop (pending, failing, converted) and the script runs <<stop>>; (C) plain lines carry trailing <<if>> conditions (true, false, variables) with statements after them, and an option may carry a condition that is not a boolean; (D) a pending command in the middle of a body reports success by closing its channel. Nothing is predicted about when the end is reported; from the first (nil,nil) on, 14 further calls - during which everything still pending completes with its error - must report the end with no host event, handler invocation or store write. Non-trivial: the end was reached with statements left in the continuation (stop) or right after an option group. Distinct by hash of scripts+choices."
}

func (c12) Assumptions() []string {
	return []string{
		"'no variable changes' is observed as: no Set*/Clear call on the recording store and an unchanged GetValues() on the default store",
		"the runner's leftover statements at the end are read through the verif hook VerifState for coverage evidence only",
	}
}

var extraArgs = []int{0, 1, -1, 7, int(^uint(0) >> 1), -int(^uint(0)>>1) - 1, 2, 99}

func (p c12) Run(c *core.Ctx) {
	cfg := gen.DefaultFlow()
	cfg.StartNotFirst = true
	cfg.WStop = 9
	cfg.WJump = 3
	cfg.WOptions = 22
	cfg.MaxDepth = 6
	if c.Idx%3 == 1 {
		cfg.WStop = 3 // more ends by running off the node
	}
	p.stopWithWords(c)
	if c.Failed() {
		return
	}
	if c.Idx%4 == 0 {
		p.hostPanics(c)
		if c.Failed() {
			return
		}
	}
	if c.Idx%4 == 2 {
		p.deepStop(c)
		if c.Failed() {
			return
		}
	}
	p.endWithCommands(c)
	if c.Failed() {
		return
	}
	prog := gen.Flow(c.R, cfg)
	shapeFeatures(c, prog)
	scripts := hast.Render(prog, hast.L0())
	maxPaths := 8
	if c.Thorough() {
		maxPaths = 16
	}
	explorePaths(c, "flow diverges before the end", prog, scripts,
		func() PairOpts { return PairOpts{UseDefaultStore: c.R.Chance(1, 3)} }, maxPaths, nil,
		func(pr *pathRun) {
			if pr.end != model.OEnd || c.Failed() {
				return
			}
			pair := pr.pair
			afterOptions := false
			if n := len(pair.Trace); n >= 2 && strings.Contains(pair.Trace[n-2], "model=options") {
				afterOptions = true
				c.Feature("end-right-after-option-group")
				if pair.M.Stats["chosen-body-empty"] > 0 {
					c.Feature("end-after-empty-chosen-body")
				}
			}
			depth, left, waitingChoice, _ := pair.R.DR.VerifState()
			_ = depth
			if left > 0 {
				c.Feature("end-with-ysgo-statements-left>0")
			} else {
				c.Feature("end-with-ysgo-statements-left=0")
			}
			if waitingChoice {
				c.Feature("end-with-ysgo-still-waiting-for-choice")
			}
			stateBefore := pair.Store()
			writesBefore, clearsBefore := 0, 0
			if pair.Rec != nil {
				writesBefore, clearsBefore = pair.Rec.Writes, pair.Rec.Clears
			}
			logBefore := len(pair.RLog.E)
			extra := 10
			if c.R.Chance(1, 60) {
				extra = 700 // a host that keeps polling a finished dialogue (a frame loop)
				c.Feature("ends-followed-by-700-further-calls")
			}
			for i := 0; i < extra; i++ {
				arg := extraArgs[c.R.Intn(len(extraArgs))]
				got := pair.R.Once(arg)
				c.Feature("extra-next-calls")
				if i < 12 || got.Kind != mon.KEnd {
					pair.Trace = append(pair.Trace, fmt.Sprintf("after the end: Next(%d) = %s (further call %d)", arg, got, i+1))
				}
				var diff string
				switch {
				case got.Kind != mon.KEnd:
					diff = fmt.Sprintf("Next(%d) after the end returned %s", arg, got)
				case len(pair.RLog.E) != logBefore:
					diff = fmt.Sprintf("Next(%d) after the end invoked %s", arg, pair.RLog.E[logBefore])
				case pair.Rec != nil && (pair.Rec.Writes != writesBefore || pair.Rec.Clears != clearsBefore):
					diff = fmt.Sprintf("Next(%d) after the end wrote to the variable store", arg)
				}
				if diff == "" && (i < 12 || i == extra-1) {
					have := map[string]model.Val{}
					for k, v := range stateBefore {
						v := v
						have[k], _ = mon.ToVal(&v)
					}
					if d := mon.StateDiff(have, pair.Store()); d != "" {
						diff = fmt.Sprintf("Next(%d) after the end changed variables: %s", arg, d)
					}
				}
				if diff != "" {
					c.Violate("the end of the dialogue is not absorbing: "+diff, pair.Detail(pr.choices, model.Outcome{Kind: model.OEnd}, got, diff))
					return
				}
			}
			// ... and only a restore that SUCCEEDS ends that state: the host offers snapshots the runner may refuse
			// (a node that does not exist; a variable entry without a value, which a runner may or may not accept).
			// If RestoreAt returns an error the dialogue is still over; if it returns nil a restore took place and
			// this part is skipped.
			if c.R.Chance(1, 3) {
				bad := pair.R.DR.Snapshot()
				if c.R.Bool() {
					bad.CurrentNode = "NoSuchNode"
				} else {
					if bad.Variables == nil {
						bad.Variables = map[string]variable.Value{}
					}
					bad.Variables["zz_empty"] = variable.Value{}
				}
				if err := pair.R.RestoreAt(bad); err != nil {
					pair.Trace = append(pair.Trace, "RestoreAt(a snapshot the runner refuses) = "+err.Error())
					c.Feature("refused-restore-after-the-end")
					for i := 0; i < 4; i++ {
						arg := extraArgs[c.R.Intn(len(extraArgs))]
						got := pair.R.Once(arg)
						pair.Trace = append(pair.Trace, fmt.Sprintf("after the end and the refused restore: Next(%d) = %s", arg, got))
						if got.Kind != mon.KEnd || len(pair.RLog.E) != logBefore {
							diff := fmt.Sprintf("after a RestoreAt that returned an error, Next(%d) returned %s", arg, got)
							c.Violate("the end of the dialogue is not absorbing: "+diff, pair.Detail(pr.choices, model.Outcome{Kind: model.OEnd}, got, diff))
							return
						}
					}
				} else if err2 := pair.R.RestoreAt(pair.R.DR.Snapshot()); err2 == nil {
					// the odd snapshot was accepted: a restore took place; put both sides at the same node entry
					pair.M.Restore(pair.M.Check.Clone())
					delete(pair.M.Vars, "zz_empty")
				}
			}
			// "until a snapshot is restored": the snapshot of the last node entry revives the runner
			snap := pair.R.DR.Snapshot()
			check := pair.M.Check.Clone()
			if err := pair.R.RestoreAt(snap); err != nil {
				c.Violate("restoring the runner's own snapshot after the end failed", map[string]any{"readers": scripts, "choices": pr.choices, "error": err.Error()})
				return
			}
			pair.M.Restore(check)
			pair.Trace = append(pair.Trace, "RestoreAt(Snapshot()) on both sides")
			for step := 0; step < 60; step++ {
				choice := 0
				if pair.M.Waiting() {
					choice = c.R.Intn(pair.M.NumOptions())
				}
				want, got, diff := pair.Step(choice)
				if want.Kind == model.OBudget {
					break
				}
				if diff != "" {
					c.Violate("after the end, a restored snapshot does not revive the runner as the model prescribes: "+diff, pair.Detail(pr.choices, want, got, diff))
					return
				}
				if want.Kind == model.OEnd || want.Kind == model.OErr {
					break
				}
			}
			c.Feature("restore-after-end-revives")
			if pair.M.Stats["stop-with-statements-left"] > 0 || afterOptions {
				c.Nontrivial(strings.Join(scripts, "\x00"), fmt.Sprint(pr.choices))
			}
			if c.WantSample() && pair.M.Stats["stop-with-statements-left"] > 0 && pr.chose > 0 {
				c.Sample(map[string]any{"readers": scripts, "choices": pr.choices, "trace": pair.Trace})
			}
		})
}

// hostPanics: a host function panics (with a string, a number, a struct or an error value) in the middle of a
// node. Nothing is predicted about that call - the panic may propagate to the host, or come back as an error -
// but IF Next reports the end, the end is absorbing like any other.
func (p c12) hostPanics(c *core.Ctx) {
	r := c.R
	use := r.Pick("{boom()} mid", "<<call boom()>>", "<<set $x to boom()>>", "<<if boom()>>\nx\n<<endif>>", "<<act {boom()}>>")
	script := "title: Start\n---\nfirst\n" + use + "\n<<set $leak to 1>>\nafter {p(1, 2)}\n<<act leaked>>\n===\n"
	rec := mon.NewRecStorer()
	rr, err, pan := mon.Create(rec, "", []string{script})
	if err != nil || pan != "" {
		c.Violate("a script that calls a host function failed to load", map[string]any{"readers": []string{script}, "error": fmt.Sprint(err), "panic": pan})
		return
	}
	log := &mon.HostLog{}
	rr.Install(mon.FlowFuncs(log), mon.FlowCmds(log))
	var what any
	switch r.Intn(4) {
	case 0:
		what = "the save file is corrupt"
	case 1:
		what = 42
	case 2:
		what = struct{ Code int }{7}
	default:
		what = fmt.Errorf("an error value")
	}
	rr.DR.AddFunction("boom", func([]*variable.Value) (*variable.Value, error) { panic(what) })
	var trace []string
	o := rr.Once(0)
	trace = append(trace, o.String())
	if o.Kind != mon.KLine {
		c.Violate("the first line was not shown", map[string]any{"readers": []string{script}, "trace": trace})
		return
	}
	o = rr.Once(0)
	trace = append(trace, o.String())
	c.Feature("host-function-panicked:" + o.Kind.String())
	if o.Kind != mon.KEnd {
		return // the panic reached the host, or came back as an error: nothing more to judge here
	}
	for i := 0; i < 10; i++ {
		arg := extraArgs[r.Intn(len(extraArgs))]
		o := rr.Once(arg)
		trace = append(trace, fmt.Sprintf("after the end: Next(%d) = %s", arg, o))
		if o.Kind != mon.KEnd || len(log.E) > 0 || rec.Writes > 0 {
			c.Violate("the end of the dialogue is not absorbing (the end was reported by the call in which a host function panicked)", map[string]any{
				"readers": []string{script}, "panic_value": fmt.Sprintf("%T %v", what, what), "trace": trace, "host_events": log.E, "store_writes": rec.Writes})
			return
		}
	}
}

// deepStop: a <<stop>> inside 7-14 nested blocks (if bodies and chosen option bodies in turn), with a line after
// every block; after the end, 12 further calls.
func (p c12) deepStop(c *core.Ctx) {
	r := c.R
	depth := r.Range(7, 14)
	var b strings.Builder
	b.WriteString("title: Start\n---\nfirst\n")
	ind := ""
	opts := 0
	kinds := make([]bool, depth)
	for d := 0; d < depth; d++ {
		kinds[d] = r.Bool()
		if kinds[d] {
			b.WriteString(ind + "-> go\n")
			opts++
		} else {
			b.WriteString(ind + "<<if true>>\n")
		}
		ind += "    "
	}
	b.WriteString(ind + "deepest\n" + ind + "<<stop>>\n" + ind + "never\n")
	for d := depth - 1; d >= 0; d-- {
		ind = ind[4:]
		if !kinds[d] {
			b.WriteString(ind + "<<endif>>\n")
		}
		b.WriteString(ind + "never\n")
	}
	b.WriteString("===\ntitle: Other\n---\nnever\n===\n")
	script := b.String()
	rr, err, pan := mon.Create(nil, "", []string{script})
	if err != nil || pan != "" {
		c.Violate("a script with a deeply nested stop failed to load", map[string]any{"readers": []string{script}, "error": fmt.Sprint(err), "panic": pan})
		return
	}
	var trace []string
	ended := false
	for i := 0; i < opts+4 && !ended; i++ {
		o := rr.Next(0)
		trace = append(trace, o.String())
		switch {
		case o.Kind == mon.KEnd:
			ended = true
		case o.Kind == mon.KLine && o.Text == "never", o.Kind == mon.KErr, o.Kind == mon.KPanic:
			c.Violate("a <<stop>> nested "+fmt.Sprint(depth)+" blocks deep did not end the dialogue", map[string]any{"readers": []string{script}, "trace": trace})
			return
		}
	}
	if !ended {
		c.Violate("a <<stop>> nested "+fmt.Sprint(depth)+" blocks deep did not end the dialogue", map[string]any{"readers": []string{script}, "trace": trace})
		return
	}
	for i := 0; i < 12; i++ {
		arg := extraArgs[r.Intn(len(extraArgs))]
		o := rr.Once(arg)
		c.Feature("extra-next-calls")
		trace = append(trace, fmt.Sprintf("after the end: Next(%d) = %s", arg, o))
		if o.Kind != mon.KEnd {
			c.Violate(fmt.Sprintf("the end of the dialogue is not absorbing (stop nested %d blocks deep): Next(%d) after the end returned %s", depth, arg, o), map[string]any{"readers": []string{script}, "trace": trace})
			return
		}
	}
	c.Feature("stops-nested-7-to-14-blocks-deep")
}

// stopWithWords covers ends reported by a stop command written with extra words or
// expressions (<<stop now>>, <<stop {$why}>>). Whether such a command ends the
// dialogue or is refused is not settled by the property texts, so nothing is
// predicted: the runner is driven until it reports the end or an error, and only
// IF it reported the end must every later call report the end again without any
// host event or store write.
func (c12) stopWithWords(c *core.Ctx) {
	r := c.R
	id := 0
	line := func(p string) *hast.Stmt {
		id++
		return &hast.Stmt{K: hast.SLine, Parts: []hast.Part{hast.Lit(fmt.Sprintf("%s%d", p, id))}, ID: id}
	}
	stop := &hast.Stmt{K: hast.SCommand, Name: "stop", Args: []hast.CmdArg{{Word: r.Pick("now", "1", "true")}}}
	if r.Bool() {
		stop.Args = []hast.CmdArg{{X: hast.Str("why")}}
	}
	after := func() []*hast.Stmt {
		var b []*hast.Stmt
		for k := r.Range(1, 3); k > 0; k-- {
			switch r.Intn(3) {
			case 0:
				b = append(b, line("after"))
			case 1:
				id++
				b = append(b, &hast.Stmt{K: hast.SSet, Var: "leak", Op: "=", X: hast.Num(fmt.Sprint(id)), ID: id})
			default:
				id++
				b = append(b, &hast.Stmt{K: hast.SCommand, Name: "act", Args: []hast.CmdArg{{Word: fmt.Sprint("leak", id)}}, ID: id})
			}
		}
		return b
	}
	// nest the stop 0-4 levels deep, with statements after it at every level
	body := append([]*hast.Stmt{stop}, after()...)
	depth := r.Intn(5)
	for d := 0; d < depth; d++ {
		var st *hast.Stmt
		if r.Bool() {
			st = &hast.Stmt{K: hast.SIf, Clauses: []*hast.Clause{{Cond: hast.Bool(true), Body: body}}}
		} else {
			st = &hast.Stmt{K: hast.SOptions, Options: []*hast.Option{{Parts: []hast.Part{hast.Lit("go")}, Body: body}}}
		}
		body = append([]*hast.Stmt{line("pre"), st}, after()...)
	}
	prog := &hast.Program{Readers: 1, Nodes: []*hast.Node{{Title: "Start", Body: body}, {Title: "Next", Body: []*hast.Stmt{line("fallthrough")}}}}
	scripts := hast.Render(prog, hast.L0())
	log := &mon.HostLog{}
	st := mon.NewRecStorer()
	rr, err, pan := mon.Create(st, "", scripts)
	if err != nil || pan != "" {
		c.Violate("a generated, syntactically valid program failed to load", map[string]any{"readers": scripts, "error": fmt.Sprint(err), "panic": pan})
		return
	}
	rr.Install(mon.FlowFuncs(log), mon.FlowCmds(log))
	var trace []string
	for step := 0; step < 40; step++ {
		o := rr.Next(0)
		trace = append(trace, o.String())
		if o.Kind == mon.KErr {
			c.Feature("stop-with-words-refused")
			return
		}
		if o.Kind == mon.KPanic {
			c.Violate("Next panicked on a stop command written with extra words", map[string]any{"readers": scripts, "trace": trace})
			return
		}
		if o.Kind == mon.KEnd {
			c.Feature("stop-with-words-reported-the-end")
			events, writes := len(log.E), st.Writes
			for i := 0; i < 6; i++ {
				arg := extraArgs[r.Intn(len(extraArgs))]
				g := rr.Once(arg)
				trace = append(trace, fmt.Sprintf("after the end: Next(%d) = %s", arg, g))
				c.Feature("extra-next-calls")
				if g.Kind != mon.KEnd || len(log.E) != events || st.Writes != writes {
					c.Violate("the end of the dialogue is not absorbing (end reported by a stop command with extra words): "+g.String(),
						map[string]any{"readers": scripts, "trace": trace, "host_events_after_end": log.E[events:], "store_writes_after_end": st.Writes - writes})
					return
				}
			}
			return
		}
	}
}
