package props

import (
	"fmt"
	"io"
	"reflect"
	"runtime/debug"
	"strings"

	"github.com/remieven/ysgo/internal/tree"
	"github.com/remieven/ysgo/verifharness/core"
	"github.com/remieven/ysgo/verifharness/gen"
	"github.com/remieven/ysgo/verifharness/hast"
	"github.com/remieven/ysgo/verifharness/model"
	"github.com/remieven/ysgo/verifharness/mon"
)

// C08 — layout never changes meaning.
type c08 struct{}

func init() { core.Register(c08{}) }

func (c08) ID() string { return "C08" }

// EvalFeatures names the counters of judged executions.
func (c08) EvalFeatures() []string {
	return []string{"tree-comparisons", "trace-comparisons", "k2-jumps", "decorated-elements-compared"}
}

func (c08) Cases(tier string) int {
	if tier == "thorough" {
		return 25000
	}
	return 2000
}

func (c08) Thresholds(tier string) map[string]int64 {
	return map[string]int64{
		"tree-comparisons":                  6000,
		"trace-comparisons":                 6000,
		"dim:tabs":                          500,
		"dim:indent-width":                  2000,
		"dim:if-body-flat":                  1500,
		"dim:crlf":                          500,
		"dim:cr":                            500,
		"dim:full-parens":                   800,
		"dim:redundant-parens":              800,
		"dim:spellings":                     1500,
		"dim:extra-blanks":                  1500,
		"dim:filler-lines":                  2000,
		"dim:trailing-comments":             1500,
		"dim:reader-split":                  1000,
		"dim:no-final-eol":                  800,
		"layout:filler:blank@between-stmts": 500,
		"layout:filler:comment-shallower@between-stmts": 100,
		"layout:filler:comment-deeper@between-stmts":    100,
		"layout:filler:ws-only-shallower@between-stmts": 50,
		"layout:filler:blank@option-line/body":          100,
		"layout:filler:comment-col0@option-line/body":   50,
		"layout:filler:blank@between-options":           100,
		"layout:filler:comment-col0@before-endif":       50,
		"layout:filler:blank@between-headers":           100,
		"layout:filler:blank@node-last":                 100,
		"filler-inside-nested-body":                     500,
		"k2-jumps":                                      1000,
		"dim:tabs-and-blanks-per-line":                  400,
		"dim:mixed-whitespace-on-blank-lines":           800,
		"layout:filler:mixed-tab-blank-whitespace":      2000,
		"dim:padded-reader":                             500,
		"dim:partial-dedent":                            300,
		"layout:partial-dedent-closing-lines":           500,
		"padded-reader:>=68KiB":                         150,
		"padded-reader:>=1074KiB":                       80,
		"decorated-elements-compared":                   8000,
		"decorated-elements-with-attributes":            5000,
	}
}

func (c08) Rule() string {
	return "case = one generated program rendered in the canonical layout L0 and in 4 (quick) / 10 (thorough) PRNG layouts: indent unit 1-8 blanks or 1-2 tabs, or per line either tabs or 8 blanks per level (a tab is 8 columns), if bodies indented or flat, LF/CRLF/CR, minimal/full/redundant parentheses, operator spellings per occurrence, extra blanks inside << >> and { }, blank / white-space-only / comment lines (at column 0, at the body's depth, deeper and shallower; their white space may mix tabs and blanks, since they carry no statement) at every insertion point (between statements, between an option line and its body, between options, before elseif/else/endif, between headers, first/last in a node, between nodes), trailing comments, <<elseif>> / <<else>> / <<endif>> dedented only part of the way after a non-empty indented body, a different node-to-reader split (one program in four has a node called Start that is not its first node), and (first variant of a case, LF layouts) 5 KiB - 1.1 MiB of blank and comment lines inserted at one line boundary, so that a reader exceeds every plausible buffer. A second sub-workload compares scripts of 6 lines/options whose texts begin or end with a speaker colon or carry markup, with and without trailing decorations (blanks, tabs, // comments, #hashtags): text and markup attributes (the implicit character attribute included) must be identical and the tags exactly those written. Oracle: tree.FromReaders of every rendering is reflect.DeepEqual to L0's, and along shared PRNG choice paths every rendering produces the model's trace. Non-trivial: the variant differs from L0 in >=2 dimensions and the program nests >=2 deep. Distinct by hash of the variant's text."
}

func (c08) Assumptions() []string {
	return []string{
		"layout never touches token content: the blanks between a line's text and its first tag or trailing comment, and the text itself, are the same in all renderings",
		"exactly one blank follows <<jump (two or more is the known lexer-grammar finding K2, exercised separately by its reproducer)",
		"a tab counts as 8 columns (the convention of Yarn Spinner's indentation-aware lexer, which ysgo ports): a line indented with d tabs is at the same level as a line indented with 8*d blanks",
	}
}

func loadTree(scripts []string) (d *tree.Dialogue, err error, pan string) {
	defer func() {
		if p := recover(); p != nil {
			pan = fmt.Sprintf("%v\n%s", p, debug.Stack())
		}
	}()
	rs := make([]io.Reader, len(scripts))
	for i, s := range scripts {
		rs[i] = strings.NewReader(s)
	}
	d, err = tree.FromReaders(rs...)
	return
}

// resplit assigns nodes to readers differently (contiguous, node 0 first).
func resplit(p *hast.Program, r *core.Rand) *hast.Program {
	q := &hast.Program{}
	n := len(p.Nodes)
	readers := r.Range(1, 4)
	if readers > n {
		readers = n
	}
	cuts := map[int]bool{}
	for len(cuts) < readers-1 {
		cuts[r.Range(1, n-1)] = true
	}
	rd := 0
	for i, node := range p.Nodes {
		if cuts[i] {
			rd++
		}
		c := *node
		c.Reader = rd
		q.Nodes = append(q.Nodes, &c)
	}
	q.Readers = readers
	return q
}

// trailingDecorations: what follows the text of a line or option on the same line - blanks, a comment,
// hashtags - is layout (or tags), never part of the text: the element's text AND its markup attributes
// (the implicit character attribute of a "Name:" prefix included) are the same with and without it.
func (c08) trailingDecorations(c *core.Ctx) {
	r := c.R
	texts := []string{"Narrator:", "Alice: hi", "Bob:", "x [b]bold[/b]", "[wave]a[/wave]:", "plain text", "Name : spaced", "a: b: c", "Mae: [i]so[/i]", "Ünï:", "日本: 語", "[b]Warning[/b]:", "ends with colon: x:", "A:", "x [pause /]"}
	decos := []string{" ", "   ", "\t", " // comment", "  // c: d", "\t// c", " #tag", "  #t1 #t2", " #tag // c", "  #a:b // x: y", " // #notatag"}
	var lines, dlines []string
	var wantTags [][]string
	for i := 0; i < 6; i++ {
		t := texts[r.Intn(len(texts))]
		d := decos[r.Intn(len(decos))]
		lines = append(lines, t)
		dlines = append(dlines, t+d)
		var tags []string
		if k := strings.Index(d, "//"); k >= 0 {
			d = d[:k]
		}
		for _, f := range strings.Fields(d) {
			tags = append(tags, strings.TrimPrefix(f, "#"))
		}
		wantTags = append(wantTags, tags)
	}
	mk := func(ls []string) string {
		var b strings.Builder
		b.WriteString("title: Start\n---\n")
		for i, l := range ls {
			if i%3 == 2 {
				b.WriteString("-> " + l + "\nsep" + fmt.Sprint(i) + "\n")
			} else {
				b.WriteString(l + "\n")
			}
		}
		b.WriteString("===\n")
		return b.String()
	}
	run := func(script string) ([]mon.Obs, string) {
		rr, err, pan := mon.Create(nil, "", []string{script})
		if err != nil || pan != "" {
			return nil, fmt.Sprint("failed to load: ", err, pan)
		}
		var obs []mon.Obs
		for step := 0; step < 20; step++ {
			o := rr.Next(0)
			if o.Kind == mon.KEnd {
				break
			}
			if o.Kind == mon.KErr || o.Kind == mon.KPanic {
				return obs, o.String()
			}
			obs = append(obs, o)
		}
		return obs, ""
	}
	plain, decorated := mk(lines), mk(dlines)
	po, perr := run(plain)
	do, derr := run(decorated)
	detail := map[string]any{"plain": plain, "decorated": decorated}
	if perr != "" || derr != "" || len(po) != len(do) {
		detail["plain_result"], detail["decorated_result"] = fmt.Sprint(perr, " ", len(po), " elements"), fmt.Sprint(derr, " ", len(do), " elements")
		c.Violate("trailing blanks, comments or hashtags change how a script runs", detail)
		return
	}
	k := 0
	for i := range po {
		a, b := po[i], do[i]
		if a.Kind == mon.KOptions && b.Kind == mon.KOptions && len(a.Opts) == 1 && len(b.Opts) == 1 {
			a = mon.Obs{Kind: mon.KLine, Text: a.Opts[0].Text, Tags: a.Opts[0].Tags, Attrs: a.Opts[0].Attrs}
			b = mon.Obs{Kind: mon.KLine, Text: b.Opts[0].Text, Tags: b.Opts[0].Tags, Attrs: b.Opts[0].Attrs}
		}
		if strings.HasPrefix(a.Text, "sep") {
			continue
		}
		c.Feature("decorated-elements-compared")
		if len(a.Attrs) > 0 {
			c.Feature("decorated-elements-with-attributes")
		}
		switch {
		case a.Kind != b.Kind || a.Text != b.Text:
			detail["difference"] = fmt.Sprintf("element %d: %s vs %s", i, a, b)
		case !reflect.DeepEqual(a.Attrs, b.Attrs) && !(len(a.Attrs) == 0 && len(b.Attrs) == 0):
			detail["difference"] = fmt.Sprintf("element %d (%q): attributes %+v vs %+v", i, a.Text, a.Attrs, b.Attrs)
		case k < len(wantTags) && strings.Join(b.Tags, " ") != strings.Join(wantTags[k], " "):
			detail["difference"] = fmt.Sprintf("element %d (%q): tags %v, written %v", i, a.Text, b.Tags, wantTags[k])
		}
		k++
		if detail["difference"] != nil {
			c.Violate("trailing blanks, comments or hashtags change the text or the markup attributes of an element", detail)
			return
		}
	}
}

func (p c08) Run(c *core.Ctx) {
	p.trailingDecorations(c)
	if c.Failed() {
		return
	}
	p.jumpBlanks(c)
	if c.Failed() {
		// (a known finding does not stop the case; anything else does)
		for _, v := range c.Res.Violations {
			if v.Case == c.Idx && v.Known == "" {
				return
			}
		}
	}
	r := c.R
	cfg := gen.DefaultFlow()
	cfg.StartNotFirst = true // (the first node of the first reader starts the dialogue, however the nodes are split)
	cfg.DupTitles = true     // a title defined twice, in the same or in another reader: the first definition is the node of that name in every layout and split
	cfg.MaxDepth = 6
	if c.Idx%2 == 0 {
		cfg.WOptions, cfg.WIf = 26, 22
	}
	prog := gen.Flow(r, cfg)
	depth := gen.Shapes(prog)["max-static-depth"]
	base := hast.Render(prog, hast.L0())
	baseTree, err, pan := loadTree(base)
	if err != nil || pan != "" {
		c.Violate("a generated program in the canonical layout failed to load", map[string]any{"readers": base, "error": fmt.Sprint(err), "panic": pan})
		return
	}
	variants := 4
	if c.Thorough() {
		variants = 10
	}
	// shared choice paths: recorded on the canonical rendering, replayed on every variant
	type path struct{ choices []int }
	var paths [][]int
	runPath := func(scripts []string, pprog *hast.Program, choices []int, record bool) ([]int, string, map[string]any) {
		pair, err, pan := NewPair(pprog, scripts, PairOpts{}, nil)
		if err != nil || pan != "" {
			return nil, "failed to load", map[string]any{"readers": scripts, "error": fmt.Sprint(err), "panic": pan}
		}
		var used []int
		for step := 0; step < 200; step++ {
			choice := 0
			if pair.M.Waiting() {
				if record {
					choice = r.Intn(pair.M.NumOptions())
				} else if len(used) < len(choices) {
					choice = choices[len(used)]
				}
				used = append(used, choice)
			}
			want, got, diff := pair.Step(choice)
			if want.Kind == model.OBudget {
				break
			}
			if diff != "" {
				return used, diff, pair.Detail(used, want, got, diff)
			}
			if want.Kind == model.OEnd || want.Kind == model.OErr {
				break
			}
		}
		return used, "", nil
	}
	for i := 0; i < 2; i++ {
		ch, diff, det := runPath(base, prog, nil, true)
		if diff != "" {
			c.Violate("the canonical rendering does not behave as the model: "+diff, det)
			return
		}
		paths = append(paths, ch)
	}
	for v := 0; v < variants; v++ {
		l := hast.RandomLayout(r.Fork())
		vp := prog
		dims := l.Dims()
		if r.Chance(1, 2) && len(prog.Nodes) > 1 {
			vp = resplit(prog, r)
			dims = append(dims, "reader-split")
		}
		text := hast.Render(vp, l)
		if v == 0 && l.EOL == "\n" {
			// size is layout too: thousands of blank and comment lines make one reader larger than any
			// buffer (4 KiB, 64 KiB, 1 MiB) without changing a statement
			size := []int{5000, 70000, 70000, 140000, 1100000}[r.Intn(5)]
			if padded, ok := padReader(r, text[0], size); ok {
				text = append([]string{padded}, text[1:]...)
				dims = append(dims, "padded-reader")
				c.Feature(fmt.Sprintf("padded-reader:>=%dKiB", size/1024))
			}
		}
		for _, d := range dims {
			c.Feature("dim:" + d)
		}
		nestedFiller := false
		for k, n := range l.Stats {
			c.FeatureN("layout:"+k, n)
			if strings.HasPrefix(k, "filler:") && (strings.HasSuffix(k, "@between-stmts") || strings.HasSuffix(k, "@option-line/body") || strings.HasSuffix(k, "@body-first")) {
				nestedFiller = true
			}
		}
		if nestedFiller && depth >= 1 {
			c.Feature("filler-inside-nested-body")
		}
		detail := func(extra map[string]any) map[string]any {
			d := map[string]any{"canonical": base, "variant": text, "layout": fmt.Sprintf("%+v", dims), "indent_unit": l.Unit, "eol": l.EOL}
			for k, v := range extra {
				d[k] = v
			}
			return d
		}
		vt, err, pan := loadTree(text)
		if err != nil || pan != "" {
			c.Violate("a layout variant of a valid program failed to load", detail(map[string]any{"error": fmt.Sprint(err), "panic": pan}))
			return
		}
		c.Feature("tree-comparisons")
		if !reflect.DeepEqual(baseTree, vt) {
			c.Violate("two layouts of one program parse to different dialogues", detail(map[string]any{"first_difference": treeDiff(baseTree, vt)}))
			return
		}
		for _, ch := range paths {
			_, diff, det := runPath(text, vp, ch, false)
			c.Feature("trace-comparisons")
			if diff != "" {
				c.Violate("a layout variant produces a different trace: "+diff, detail(det))
				return
			}
		}
		if len(dims) >= 2 && depth >= 2 {
			c.Nontrivial(strings.Join(text, "\x00"))
		}
		if c.WantSample() && len(dims) >= 4 && depth >= 2 && l.Filler > 0 {
			c.Sample(map[string]any{"canonical": base, "variant": text, "dimensions": dims})
		}
	}
}

// padReader inserts blank and comment lines of about size bytes at one line boundary inside a body or
// between two nodes.
func padReader(r *core.Rand, text string, size int) (string, bool) {
	lines := strings.SplitAfter(text, "\n")
	var spots []int
	inBody := false
	for i, l := range lines {
		t := strings.TrimSpace(l)
		if t == "---" {
			inBody = true
			spots = append(spots, i+1)
		} else if t == "===" {
			inBody = false
			spots = append(spots, i+1)
		} else if inBody && !strings.HasSuffix(l, "\n") {
			continue
		} else if inBody {
			spots = append(spots, i+1)
		}
	}
	if len(spots) == 0 {
		return text, false
	}
	at := spots[r.Intn(len(spots))]
	var b strings.Builder
	for b.Len() < size {
		switch r.Intn(3) {
		case 0:
			b.WriteString("\n")
		case 1:
			b.WriteString("// padding padding padding padding padding padding padding padding\n")
		default:
			b.WriteString("        // indented padding\n")
		}
	}
	return strings.Join(lines[:at], "") + b.String() + strings.Join(lines[at:], ""), true
}

// jumpBlanks is the K2 sub-workload: more than one blank between <<jump and its target is layout
// ("extra spaces inside commands"), but the lexer grammar has no white-space rule in that mode.
func (c08) jumpBlanks(c *core.Ctx) {
	r := c.R
	sep := r.Pick("  ", "   ", " \t", "\t ", "    ")
	target := r.Pick("Other", "{\"Other\"}")
	mk := func(sep string) string {
		return "title: Start\n---\nbefore\n<<jump" + sep + target + ">>\nnot reached\n===\ntitle: Other\n---\narrived\n===\n"
	}
	base, variant := mk(" "), mk(sep)
	bt, err, pan := loadTree([]string{base})
	if err != nil || pan != "" {
		c.Violate("a jump written with one blank failed to load", map[string]any{"readers": []string{base}, "error": fmt.Sprint(err), "panic": pan})
		return
	}
	c.Feature("k2-jumps")
	vt, err, pan := loadTree([]string{variant})
	switch {
	case pan != "":
		c.Violate("loading a jump written with several blanks panicked", map[string]any{"readers": []string{variant}, "panic": pan})
	case err != nil:
		c.ViolateKnown("K2", "a jump written with more than one blank after the keyword is refused as a syntax error", map[string]any{"readers": []string{variant}, "error": err.Error()})
	case !reflect.DeepEqual(bt, vt):
		c.ViolateKnown("K2", "a jump written with more than one blank after the keyword parses to a different dialogue", map[string]any{"canonical": base, "variant": variant})
	}
}

// KnownRepro runs the reproducers of K2.
func (c08) KnownRepro(f core.KnownFinding) (bool, error) {
	for _, rep := range f.Reproducers {
		_, err, pan := loadTree([]string{rep})
		if pan != "" {
			return false, fmt.Errorf("reproducer panics instead of failing as recorded: %s", pan)
		}
		if err != nil {
			return true, nil
		}
	}
	return false, nil
}

// treeDiff describes where two dialogues differ (node level).
func treeDiff(a, b *tree.Dialogue) string {
	if len(a.Nodes) != len(b.Nodes) {
		return fmt.Sprintf("%d nodes vs %d nodes", len(a.Nodes), len(b.Nodes))
	}
	for i := range a.Nodes {
		if !reflect.DeepEqual(a.Nodes[i].Headers, b.Nodes[i].Headers) {
			return fmt.Sprintf("headers of node %d: %v vs %v", i, a.Nodes[i].Headers, b.Nodes[i].Headers)
		}
		if len(a.Nodes[i].Statements) != len(b.Nodes[i].Statements) {
			return fmt.Sprintf("node %q has %d top-level statements vs %d", a.Nodes[i].Title(), len(a.Nodes[i].Statements), len(b.Nodes[i].Statements))
		}
		for j := range a.Nodes[i].Statements {
			if !reflect.DeepEqual(a.Nodes[i].Statements[j], b.Nodes[i].Statements[j]) {
				return fmt.Sprintf("node %q, top-level statement %d differs", a.Nodes[i].Title(), j)
			}
		}
	}
	return "(no difference found at node level)"
}
