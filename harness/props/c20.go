package props

import (
	"fmt"
	"runtime/debug"
	"strings"

	"github.com/antlr4-go/antlr/v4"
	"github.com/remieven/ysgo/internal/container"
	"github.com/remieven/ysgo/internal/parser"
	"github.com/remieven/ysgo/verifharness/core"
	"github.com/remieven/ysgo/verifharness/gen"
	"github.com/remieven/ysgo/verifharness/hast"
)

// C20 — internal queue/stack are exact FIFO/LIFO; indentation tokens are balanced.
type c20 struct{}

func init() { core.Register(c20{}) }

func (c20) ID() string { return "C20" }

// EvalFeatures names the counters of judged executions.
func (c20) EvalFeatures() []string {
	return []string{"exhaustive-sequences", "inputs-tokenised", "stack-ops"}
}

const c20PrefixBits = 8

func c20Depth(tier string) int {
	if tier == "thorough" {
		return 24
	}
	return 18
}

// cases: 2^8 exhaustive-enumeration slices, then PRNG cases
func (c20) Cases(tier string) int {
	if tier == "thorough" {
		return 1<<c20PrefixBits + 20000
	}
	return 1<<c20PrefixBits + 600
}

func (c20) Exhaustive(tier string) (bool, string) {
	return true, fmt.Sprintf("queue: every sequence over {enqueue, dequeue} of length %d (a dequeue on an empty queue, which the contract answers with a panic, is skipped), with peek and size compared after every step: 2^%d sequences, split over 2^%d cases by their first operations; this includes every head position at the first growth", c20Depth(tier), c20Depth(tier), c20PrefixBits)
}

func (c20) Thresholds(tier string) map[string]int64 {
	return map[string]int64{
		"exhaustive-sequences":                    1 << 18,
		"queue-with-hundreds-of-pending-elements": 50,
		"nesting-chain-deeper-than-64":            100,
		"queue-ops":                               3000000,
		"queue-growths":                           8000,
		"queue-growths-with-wrapped-head":         6000,
		"sequences-with>=2-wrapped-growths":       200,
		"stack-ops":                               50000,
		"stack-clear":                             500,
		"tall-stacks":                             40,
		"stack-pushall":                           1000,
		"inputs-tokenised":                        8000,
		"inputs-with-indent":                      2000,
		"tokens":                                  1000000,
		"indent-tokens":                           20000,
		"multi-level-dedent>=3":                   500,
		"lexer-queue-grew":                        50,
		"hostile-inputs-tokenised":                3000,
		"eof-repeated-calls":                      8000,
	}
}

func (c20) Rule() string {
	return "cases 0..255 = the bounded-exhaustive part: every sequence over {enqueue, dequeue} of length 18 (quick) / 24 (thorough) on container.Queue, compared after every operation (Dequeue result, Peek, Size) with a slice model. Further cases = (a) one PRNG sequence of 400 operations biased to hover around 8, 16 and 32 elements with a rotated head, so that several growths happen while the ring is wrapped (counted through the verif hook VerifRingState), one case in eight runs 9000 operations hovering around 65 ... 2300 pending elements instead; (b) one PRNG sequence of 300 operations on container.Stack incl. PushAll, Clear, Peek, Size against a slice model, one case in eight also pushes a stack to 300-2100 elements and pops it to the bottom, (c) 15 inputs tokenised with the indentation-aware lexer: generated programs in PRNG layouts incl. nesting chains 6-10 deep and, one in six, 66-160 deep (multi-level dedents, token queue growth inside the lexer, read through the hook VerifPending), token-level mutations, truncations and raw byte strings. Token oracle: no nil token, no DEDENT when the running INDENT-DEDENT balance is 0, balance 0 at the first EOF, EOF within 3*len+16 calls, 3 further calls return EOF, no panic. Non-trivial: the sequence reaches >=9 elements with a rotated head, or the input produces >=1 INDENT. Distinct by hash of the operation sequence / the input."
}

func (c20) Assumptions() []string {
	return []string{
		"Dequeue/Peek/Pop on an empty container panic by contract; sequences never perform them",
		"a token source keeps answering EOF when asked again after the end of input; that is not a second end of the stream",
	}
}

type queueChecker struct {
	q       container.Queue[int]
	model   []int
	next    int
	ops     int
	growths int
	wrapped int
	rotated bool // reached >= 9 elements with a rotated head
	states  map[[3]int]bool
}

func (k *queueChecker) check(what string) string {
	if s := k.q.Size(); s != len(k.model) {
		return fmt.Sprintf("after %s: Size() = %d, want %d", what, s, len(k.model))
	}
	if len(k.model) > 0 {
		if p := k.q.Peek(); p != k.model[0] {
			return fmt.Sprintf("after %s: Peek() = %d, want %d", what, p, k.model[0])
		}
	}
	return ""
}

func (k *queueChecker) enqueue() string {
	f0, _, c0 := k.q.VerifRingState()
	k.next++
	k.q.Enqueue(k.next)
	k.model = append(k.model, k.next)
	k.ops++
	f1, n1, c1 := k.q.VerifRingState()
	if c0 != 0 && c1 != c0 {
		k.growths++
		if f0 > 0 {
			k.wrapped++
		}
	}
	if len(k.model) >= 9 && f1 > 0 {
		k.rotated = true
	}
	if k.states != nil && len(k.states) < 5000 {
		k.states[[3]int{f1, n1, c1}] = true
	}
	return k.check("Enqueue")
}

func (k *queueChecker) dequeue() string {
	v := k.q.Dequeue()
	k.ops++
	if v != k.model[0] {
		return fmt.Sprintf("Dequeue() = %d, want %d (FIFO order broken)", v, k.model[0])
	}
	k.model = k.model[1:]
	return k.check("Dequeue")
}

func guard(f func() string) (res string) {
	defer func() {
		if p := recover(); p != nil {
			res = fmt.Sprintf("panic: %v\n%s", p, debug.Stack())
		}
	}()
	return f()
}

func (p c20) exhaustive(c *core.Ctx) {
	depth := c20Depth(c.Tier)
	prefix := c.Idx
	rest := depth - c20PrefixBits
	var totalOps, growths, wrapped int64
	for tail := 0; tail < 1<<rest; tail++ {
		k := &queueChecker{}
		seq := uint64(prefix) | uint64(tail)<<c20PrefixBits
		var trace []byte
		d := guard(func() string {
			for i := 0; i < depth; i++ {
				if seq>>uint(i)&1 == 0 {
					trace = append(trace, 'E')
					if d := k.enqueue(); d != "" {
						return d
					}
				} else if len(k.model) > 0 {
					trace = append(trace, 'D')
					if d := k.dequeue(); d != "" {
						return d
					}
				}
			}
			return ""
		})
		if d != "" {
			c.Violate("the queue is not an exact FIFO: "+d, map[string]any{"operations": string(trace), "note": "E = Enqueue(next integer), D = Dequeue; Peek and Size are compared after every operation"})
			return
		}
		totalOps += int64(k.ops)
		growths += int64(k.growths)
		wrapped += int64(k.wrapped)
		if k.rotated {
			c.Nontrivial(fmt.Sprint(seq))
		}
	}
	c.FeatureN("exhaustive-sequences", 1<<rest)
	c.FeatureN("queue-ops", int(totalOps))
	c.FeatureN("queue-growths", int(growths))
	c.FeatureN("queue-growths-with-wrapped-head", int(wrapped))
	if c.Idx == 5 {
		c.Sample(map[string]any{"part": "bounded-exhaustive", "first_operations_bits": prefix, "sequences_in_this_case": 1 << rest, "length": depth})
	}
}

func (p c20) Run(c *core.Ctx) {
	if c.Idx < 1<<c20PrefixBits {
		p.exhaustive(c)
		return
	}
	r := c.R
	// ---- (a) hovering PRNG sequence on the queue
	{
		k := &queueChecker{states: map[[3]int]bool{}}
		var trace []byte
		drainedAndReused := false
		target := []int{8, 16, 32}[r.Intn(3)]
		ops, big := 400, c.Idx%8 == 3
		if big {
			// hundreds to thousands of pending elements (growths at 64 ... 2048 with a rotated head)
			ops = 9000
			target = []int{100, 300, 700}[r.Intn(3)]
			c.Feature("queue-with-hundreds-of-pending-elements")
		}
		d := guard(func() string {
			for i := 0; i < ops; i++ {
				if i%100 == 99 && !big {
					target = []int{8, 16, 32, 64}[r.Intn(4)]
				}
				if big && i%1500 == 1499 {
					target = []int{65, 130, 260, 520, 1100, 2300}[r.Intn(6)]
				}
				enq := r.Chance(1, 2)
				if len(k.model) < target-2 {
					enq = r.Chance(3, 4)
				} else if len(k.model) > target+1 {
					enq = r.Chance(1, 4)
				}
				if len(k.model) == 0 {
					enq = true
				}
				if enq {
					trace = append(trace, 'E')
					if d := k.enqueue(); d != "" {
						return d
					}
				} else {
					trace = append(trace, 'D')
					if d := k.dequeue(); d != "" {
						return d
					}
				}
			}
			// drain to exactly empty, then go on using the queue (twice): a drained queue that grew before
			// must behave like a new one
			for phase := 0; phase < 3; phase++ {
				for len(k.model) > 0 {
					trace = append(trace, 'D')
					if d := k.dequeue(); d != "" {
						return d
					}
				}
				if phase == 2 {
					break
				}
				for i := r.Range(9, 30); i > 0; i-- {
					trace = append(trace, 'E')
					if d := k.enqueue(); d != "" {
						return d
					}
					if r.Chance(1, 4) {
						trace = append(trace, 'D')
						if d := k.dequeue(); d != "" {
							return d
						}
					}
				}
				drainedAndReused = true
			}
			return ""
		})
		if drainedAndReused {
			c.Feature("queue-reused-after-drain")
		}
		if d != "" {
			c.Violate("the queue is not an exact FIFO: "+d, map[string]any{"operations": string(trace)})
			return
		}
		c.FeatureN("queue-ops", k.ops)
		c.FeatureN("queue-growths", k.growths)
		c.FeatureN("queue-growths-with-wrapped-head", k.wrapped)
		if k.wrapped >= 2 {
			c.Feature("sequences-with>=2-wrapped-growths")
		}
		for s := range k.states {
			c.SetAdd("ring-states(first,next,cap)", fmt.Sprint(s))
		}
		if k.rotated {
			c.Nontrivial(string(trace))
		}
		if c.WantSample() && k.wrapped >= 2 {
			c.Sample(map[string]any{"part": "hovering queue sequence", "operations": string(trace), "growths_with_wrapped_head": k.wrapped})
		}
	}
	// ---- (b) stack
	{
		var s container.Stack[int]
		var model []int
		var trace []string
		next := 0
		d := guard(func() string {
			for i := 0; i < 300; i++ {
				switch op := r.PickW(40, 30, 10, 3, 17); {
				case op == 0:
					next++
					s.Push(next)
					model = append(model, next)
					trace = append(trace, "push")
				case op == 1 && len(model) > 0:
					v := s.Pop()
					trace = append(trace, "pop")
					if v != model[len(model)-1] {
						return fmt.Sprintf("Pop() = %d, want %d (LIFO order broken)", v, model[len(model)-1])
					}
					model = model[:len(model)-1]
				case op == 2:
					// the caller's slice has spare capacity and is modified by the caller afterwards: the stack
					// must have taken the VALUES
					n := r.Intn(5)
					xs := make([]int, 0, n+4)
					for k := n; k > 0; k-- {
						next++
						xs = append(xs, next)
					}
					s.PushAll(xs...)
					model = append(model, xs...)
					for i := range xs {
						xs[i] = -1000 - i
					}
					_ = append(xs, -7, -8)
					trace = append(trace, fmt.Sprintf("pushall(%d)+caller-modifies-its-slice", len(xs)))
					c.Feature("stack-pushall")
					if len(model) == n {
						c.Feature("stack-pushall-on-empty-stack")
					}
					// the whole content is compared, not just the top
					for len(model) > 0 && r.Chance(1, 3) {
						if v := s.Pop(); v != model[len(model)-1] {
							return fmt.Sprintf("Pop() = %d, want %d (after a PushAll whose argument slice the caller then modified)", v, model[len(model)-1])
						}
						model = model[:len(model)-1]
						trace = append(trace, "pop")
					}
				case op == 3:
					s.Clear()
					model = model[:0]
					trace = append(trace, "clear")
					c.Feature("stack-clear")
				}
				c.Feature("stack-ops")
				if s.Size() != len(model) {
					return fmt.Sprintf("Size() = %d, want %d", s.Size(), len(model))
				}
				if len(model) > 0 && s.Peek() != model[len(model)-1] {
					return fmt.Sprintf("Peek() = %d, want %d", s.Peek(), model[len(model)-1])
				}
			}
			return ""
		})
		if d != "" {
			c.Violate("the stack is not an exact LIFO: "+d, map[string]any{"operations": strings.Join(trace, " ")})
			return
		}
	}
	// ---- (b2) a tall stack: pushed one by one (and by PushAll) to 300-2100 elements, sizes that cross every power
	// of two on the way, then popped to the bottom; now and then cleared when tall and filled again
	if c.Idx%8 == 5 {
		var s container.Stack[int]
		var model []int
		target := r.Range(300, 2100)
		d := guard(func() string {
			for round := 0; round < 2; round++ {
				for len(model) < target {
					if r.Chance(1, 40) {
						xs := []int{len(model) + 1, len(model) + 2, len(model) + 3}
						s.PushAll(xs...)
						model = append(model, xs...)
					} else {
						s.Push(len(model) + 1)
						model = append(model, len(model)+1)
					}
					if r.Chance(1, 25) && len(model) > 0 {
						if v := s.Pop(); v != model[len(model)-1] {
							return fmt.Sprintf("Pop() = %d, want %d (stack %d tall)", v, model[len(model)-1], len(model))
						}
						model = model[:len(model)-1]
					}
					if s.Size() != len(model) {
						return fmt.Sprintf("Size() = %d, want %d", s.Size(), len(model))
					}
					if len(model) > 0 && s.Peek() != model[len(model)-1] {
						return fmt.Sprintf("Peek() = %d, want %d", s.Peek(), model[len(model)-1])
					}
				}
				if round == 0 && r.Bool() {
					s.Clear()
					model = model[:0]
					if s.Size() != 0 {
						return fmt.Sprintf("Size() = %d after Clear of a stack %d tall", s.Size(), target)
					}
					c.Feature("tall-stack-cleared")
					target = r.Range(70, 300)
					continue
				}
				for len(model) > 0 {
					if v := s.Pop(); v != model[len(model)-1] {
						return fmt.Sprintf("Pop() = %d, want %d (%d elements left below)", v, model[len(model)-1], len(model)-1)
					}
					model = model[:len(model)-1]
					if s.Size() != len(model) {
						return fmt.Sprintf("Size() = %d, want %d", s.Size(), len(model))
					}
					c.Feature("stack-ops")
				}
				target = r.Range(70, 600)
			}
			return ""
		})
		if d != "" {
			c.Violate("the stack is not an exact LIFO: "+d, map[string]any{"operations": fmt.Sprintf("a stack pushed up to %d elements and popped to the bottom", target)})
			return
		}
		c.Feature("tall-stacks")
	}
	// ---- (c) token balance
	for i := 0; i < 15; i++ {
		var in, class string
		var prog *hast.Program
		if r.Chance(1, 3) {
			id := 0
			depth := r.Range(6, 10)
			if r.Chance(1, 6) {
				depth = r.Range(66, 160) // deeper than any fixed nesting limit; hundreds of pending DEDENTs at once
				c.Feature("nesting-chain-deeper-than-64")
			}
			prog = &hast.Program{Readers: 1, Nodes: []*hast.Node{{Title: "Start", Body: deepChain(r, depth, &id)}}}
		} else {
			cfg := gen.DefaultFlow()
			cfg.MaxReaders = 1
			cfg.MaxDepth = 6
			cfg.WOptions, cfg.WIf = 26, 20
			prog = gen.Flow(r, cfg)
		}
		base := hast.Render(prog, hast.RandomLayout(r.Fork()))[0]
		switch r.PickW(40, 25, 15, 20, 10) {
		case 4:
			// structure markers that are themselves indented inside an open block
			in, class = indentMarkers(r, base), "indented-markers"
		case 0:
			in, class = base, "valid"
		case 1:
			in, class = mutate(r, base), "mutation"
		case 2:
			in, class = base[:r.Intn(len(base)+1)], "truncation"
		default:
			in, class = rawBytes(r)+r.Pick("", "\n  x\n    y\n z", "\n\ta\n\t\tb\nc", " \t mixed\n"), "raw"
		}
		if d, detail := p.tokens(c, in); d != "" {
			detail["input_quoted"] = fmt.Sprintf("%q", in)
			detail["class"] = class
			c.Violate("the lexer's token stream is not balanced / not properly ended: "+d, detail)
			return
		}
		if class != "valid" {
			c.Feature("hostile-inputs-tokenised")
		}
	}
}

// tokens runs the token oracle on one input.
func (c20) tokens(c *core.Ctx, in string) (diff string, detail map[string]any) {
	detail = map[string]any{}
	var kinds []string
	diff = guard(func() string {
		lx := parser.NewYarnSpinnerLexer(antlr.NewInputStream(in))
		lx.RemoveErrorListeners()
		balance, indents, maxPending, run, maxRun := 0, 0, 0, 0, 0
		limit := 3*len(in) + 16
		for n := 0; ; n++ {
			if n > limit {
				return fmt.Sprintf("no EOF within %d calls of NextToken", limit)
			}
			t := lx.NextToken()
			if t == nil {
				return fmt.Sprintf("NextToken returned nil (call %d)", n)
			}
			c.Feature("tokens")
			if pend, _ := lx.VerifPending(); pend > maxPending {
				maxPending = pend
			}
			switch t.GetTokenType() {
			case parser.YarnSpinnerLexerINDENT:
				balance++
				indents++
				run = 0
				kinds = append(kinds, "INDENT")
			case parser.YarnSpinnerLexerDEDENT:
				if balance == 0 {
					return fmt.Sprintf("DEDENT with nothing open (token %d)", n)
				}
				balance--
				run++
				if run > maxRun {
					maxRun = run
				}
				kinds = append(kinds, "DEDENT")
			case antlr.TokenEOF:
				if balance != 0 {
					return fmt.Sprintf("%d INDENT not closed at the end of the token stream", balance)
				}
				for k := 0; k < 3; k++ {
					u := lx.NextToken()
					c.Feature("eof-repeated-calls")
					if u == nil || u.GetTokenType() != antlr.TokenEOF {
						return "a call of NextToken after EOF returned something else than EOF"
					}
				}
				c.Feature("inputs-tokenised")
				c.FeatureN("indent-tokens", indents)
				if indents > 0 {
					c.Feature("inputs-with-indent")
					c.Nontrivial(in)
				}
				if maxRun >= 3 {
					c.Feature("multi-level-dedent>=3")
				}
				if maxPending > 8 {
					c.Feature("lexer-queue-grew")
				}
				c.MaxOf("lexer-pending-queue", maxPending)
				c.MaxOf("dedent-run", maxRun)
				return ""
			default:
				if t.GetTokenType() != parser.YarnSpinnerLexerNEWLINE {
					run = 0
				}
			}
		}
	})
	if diff != "" && len(kinds) > 0 {
		detail["indentation_tokens"] = strings.Join(kinds, " ")
	}
	return diff, detail
}

// indentMarkers indents some of the --- / === lines (and the header lines after them) of a script to
// the depth of the line before them.
func indentMarkers(r *core.Rand, s string) string {
	lines := strings.SplitAfter(s, "\n")
	for i := 1; i < len(lines); i++ {
		if (strings.HasPrefix(lines[i], "===") || strings.HasPrefix(lines[i], "---") || strings.HasPrefix(lines[i], "title:")) && r.Chance(1, 2) {
			prev := lines[i-1]
			ws := prev[:len(prev)-len(strings.TrimLeft(prev, " \t"))]
			if ws == "" {
				ws = r.Pick("    ", "\t", "  ")
			}
			lines[i] = ws + lines[i]
		}
	}
	return strings.Join(lines, "")
}
