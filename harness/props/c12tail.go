package props

import (
	"fmt"
	"strings"
	"time"

	"github.com/remieven/ysgo/variable"
	"github.com/remieven/ysgo/verifharness/core"
	"github.com/remieven/ysgo/verifharness/model"
	"github.com/remieven/ysgo/verifharness/mon"
)

// endWithCommands drives scripts in which the end of the dialogue meets commands:
//
//	A  an asynchronous command is the very last statement of the dialogue (it closes every enclosing
//	   block), completes - with an error or with nil - only after the host has polled Next a few times,
//	   or only after the end was reported;
//	B  the game has registered a command under the name "stop" and the script runs <<stop>>;
//	C  plain lines carry a trailing <<if …>> condition (the grammar accepts it) with statements after them.
//
// Nothing is predicted about WHEN the end is reported (C10 judges the waiting protocol): from the first
// (nil, nil) on, every later call must report the end again - whatever the handlers do afterwards - with
// no host-function or command invocation and no store write.
func (c12) endWithCommands(c *core.Ctx) {
	r := c.R
	var b strings.Builder
	b.WriteString("title: Start\n---\n")
	scenario := []string{"A", "A", "B", "C", "D"}[r.Intn(5)]
	ind := ""
	id := 0
	stmt := func() {
		id++
		switch r.Intn(4) {
		case 0:
			fmt.Fprintf(&b, "%sL%d {p(%d, %d)}\n", ind, id, id, id)
		case 1:
			fmt.Fprintf(&b, "%s<<set $leak to %d>>\n", ind, id)
		case 2:
			fmt.Fprintf(&b, "%s<<act leak%d>>\n", ind, id)
		default:
			fmt.Fprintf(&b, "%sL%d\n", ind, id)
		}
	}
	depth := r.Intn(4)
	type lvl struct{ kind string }
	var open []lvl
	for d := 0; d < depth; d++ {
		if r.Bool() {
			stmt()
		}
		if r.Bool() {
			fmt.Fprintf(&b, "%s<<if true>>\n", ind)
			open = append(open, lvl{"if"})
		} else {
			fmt.Fprintf(&b, "%s-> go%d\n", ind, d)
			open = append(open, lvl{"opt"})
		}
		ind += "    "
	}
	k := &c10Cmd{name: "tail", shape: r.Intn(7), polls: 1 + r.Intn(4), gate: make(chan struct{}), fail: r.Chance(2, 3), err: c10ErrValues[r.Intn(len(c10ErrValues))]}
	if k.shape == 2 {
		k.fail = false // func() has no way to report an error
	}
	completeAfterEnd := r.Chance(1, 3)
	var stopCalls int
	var stopCh chan error
	stopShape := r.Intn(4)
	switch scenario {
	case "D":
		// a pending command in the MIDDLE of a body that reports success by closing its channel: that is a
		// completion, not an end - and if an end is reported, it is absorbing
		// - or reports one of the error values a game's command may well report (context.Canceled, io.EOF ...):
		// an error like any other, not a request to end the dialogue
		k.shape = []int{0, 1, 4, 5, 6}[r.Intn(5)]
		if r.Bool() {
			k.fail = false
			k.closeOnly = true
		} else {
			k.fail = true
			k.err = c10ErrValues[2+r.Intn(len(c10ErrValues)-2)]
			c.Feature("tail:pending-command-in-mid-body-reports-a-well-known-error-value")
		}
		fmt.Fprintf(&b, "%s<<tail t 1.5 true>>\n", ind)
		stmt()
		stmt()
		c.Feature("tail:pending-command-completes-by-closing-its-channel")
	case "A":
		fmt.Fprintf(&b, "%s<<tail t 1.5 true>>\n", ind)
		c.Feature("tail:async-command-is-the-last-statement")
	case "B":
		fmt.Fprintf(&b, "%s<<stop>>\n", ind)
		stmt()
		c.Feature("tail:stop-with-a-host-command-named-stop")
	default:
		conds := []string{"false", "true", "$flag", "not $flag", "1 > 2"}
		for n := 2 + r.Intn(4); n > 0; n-- {
			id++
			fmt.Fprintf(&b, "%sC%d <<if %s>>\n", ind, id, conds[r.Intn(len(conds))])
			stmt()
		}
		if r.Bool() {
			// an option whose condition is not a boolean (a fault): whatever is reported, an end is an end
			id++
			fmt.Fprintf(&b, "%s-> buy%d <<if %s>>\n%s    inside\n", ind, id, r.Pick("3", "\"yes\"", "$flag", "0"), ind)
			id++
			fmt.Fprintf(&b, "%sL%d {p(%d, %d)}\n", ind, id, id, id)
			stmt()
			c.Feature("tail:option-with-a-non-boolean-condition")
		}
		c.Feature("tail:plain-lines-with-conditions")
	}
	// close the blocks; scenario A must not have anything after the command on the way out
	for d := len(open) - 1; d >= 0; d-- {
		ind = ind[:len(ind)-4]
		if open[d].kind == "if" {
			fmt.Fprintf(&b, "%s<<endif>>\n", ind)
		}
		if scenario != "A" && r.Bool() {
			stmt()
		}
	}
	b.WriteString("===\ntitle: Other\n---\nfallthrough {p(0, 0)}\n===\n")
	script := b.String()
	log := &mon.HostLog{}
	st := mon.NewRecStorer()
	st.HostSet("flag", model.B(r.Bool()))
	rr, err, pan := mon.Create(st, "", []string{script})
	if err != nil || pan != "" {
		c.Violate("a script of the end-with-commands workload failed to load", map[string]any{"readers": []string{script}, "error": fmt.Sprint(err), "panic": pan})
		return
	}
	rr.Install(mon.FlowFuncs(log), mon.FlowCmds(log))
	var gates []func()
	switch scenario {
	case "A", "D":
		if err := k.register(rr); err != nil {
			c.Violate("registering a handler of a supported shape failed: "+err.Error(), map[string]any{"shape": c10Shapes[k.shape]})
			return
		}
		gates = append(gates, k.complete)
	case "B":
		gate := make(chan struct{})
		opened := false
		gates = append(gates, func() {
			if !opened {
				opened = true
				close(gate)
				if stopCh != nil {
					stopCh <- errSentinel
				}
			}
		})
		switch stopShape {
		case 0: // raw, pending until the gate opens, then an error
			rr.DR.AddCommand("stop", func([]*variable.Value) <-chan error {
				stopCalls++
				stopCh = make(chan error, 1)
				return stopCh
			})
		case 1: // raw, already failed on return
			rr.DR.AddCommand("stop", func([]*variable.Value) <-chan error {
				stopCalls++
				ch := make(chan error, 1)
				ch <- errSentinel
				return ch
			})
		case 2:
			if err := rr.DR.ConvertAndAddCommand("stop", func() error { <-gate; return errSentinel }); err != nil {
				c.Violate("registering a command named stop failed: "+err.Error(), nil)
				return
			}
		default:
			if err := rr.DR.ConvertAndAddCommand("stop", func() chan error { ch := make(chan error, 1); ch <- errSentinel; return ch }); err != nil {
				c.Violate("registering a command named stop failed: "+err.Error(), nil)
				return
			}
		}
		c.Feature(fmt.Sprintf("tail:stop-handler-shape-%d", stopShape))
	}
	release := func() {
		for _, g := range gates {
			g()
		}
	}
	defer release()
	var trace []string
	detail := func() map[string]any {
		return map[string]any{"readers": []string{script}, "scenario": scenario, "trace": trace,
			"tail_command": fmt.Sprintf("shape %s, completes after %d polls (after the end was reported: %v), error=%v", c10Shapes[k.shape], k.polls, completeAfterEnd, k.fail)}
	}
	waits, errs := 0, 0
	for step := 0; step < 400; step++ {
		o := rr.Once(0)
		trace = append(trace, "Next(0) = "+o.String())
		switch o.Kind {
		case mon.KPanic:
			c.Violate("Next panicked in the end-with-commands workload", detail())
			return
		case mon.KErr:
			errs++
			if errs > 8 {
				return
			}
		case mon.KWaiting:
			waits++
			c.Feature("tail:waiting-polls")
			if waits >= k.polls && !completeAfterEnd {
				release()
				if waits == k.polls {
					trace = append(trace, "(harness reports completion)")
				}
			}
			if waits > k.polls+20 {
				time.Sleep(200 * time.Microsecond)
			}
			if waits > k.polls+40 && completeAfterEnd {
				// the runner keeps waiting (as C10 demands): the end will not be reported before completion
				c.Feature("tail:kept-waiting-until-completion")
				completeAfterEnd = false
			}
			if waits > k.polls+5000 {
				c.Feature("tail:never-left-the-waiting-state")
				return
			}
		case mon.KEnd:
			c.Feature("tail:end-reported")
			if waits > 0 {
				c.Feature("tail:end-reported-after-a-pending-command")
			}
			events, writes, calls, sc := len(log.E), st.Writes, k.callCount(), stopCalls
			for i := 0; i < 14; i++ {
				if i == 2 {
					release() // whatever was still running completes (with its error) AFTER the end was reported
					trace = append(trace, "(harness reports completion of everything still pending)")
					time.Sleep(2 * time.Millisecond)
				}
				arg := extraArgs[r.Intn(len(extraArgs))]
				g := rr.Once(arg)
				trace = append(trace, fmt.Sprintf("after the end: Next(%d) = %s", arg, g))
				c.Feature("extra-next-calls")
				if g.Kind != mon.KEnd || len(log.E) != events || st.Writes != writes || k.callCount() != calls || stopCalls != sc {
					d := detail()
					d["host_events_after_end"] = log.E[events:]
					d["store_writes_after_end"] = st.Writes - writes
					c.Violate("the end of the dialogue is not absorbing (end meets commands, scenario "+scenario+"): "+g.String(), d)
					return
				}
				if i > 2 && i%4 == 0 {
					time.Sleep(500 * time.Microsecond)
				}
			}
			c.Feature("tail:absorbing-checked")
			c.Feature("tail:absorbing-checked:" + scenario)
			c.Nontrivial(script, fmt.Sprint(k.shape, k.polls, k.fail, completeAfterEnd, stopShape))
			return
		}
	}
}
