package props

import (
	"context"
	"errors"
	"fmt"
	"github.com/remieven/ysgo"
	"io"
	"math"
	"os"
	"os/exec"
	"path/filepath"
	"regexp"
	"runtime"
	"strings"
	"sync"
	"sync/atomic"
	"time"

	"github.com/remieven/ysgo/variable"
	"github.com/remieven/ysgo/verifharness/core"
	"github.com/remieven/ysgo/verifharness/model"
	"github.com/remieven/ysgo/verifharness/mon"
)

// C10 — pending commands: Next never blocks, resumes once, handlers run exactly once.
type c10 struct{}

func init() { core.Register(c10{}) }

func (c10) ID() string { return "C10" }

// EvalFeatures names the counters of judged executions.
func (c10) EvalFeatures() []string {
	return []string{"commands-executed", "real-timing-commands", "wait-commands"}
}

func (c10) Race() bool { return true }

func (c10) Cases(tier string) int {
	if tier == "thorough" {
		return 40000
	}
	return 1200
}

func (c10) Env(tier string, work string) []string {
	return []string{"GORACE=halt_on_error=0 log_path=" + filepath.Join(work, "race")}
}

var c10Shapes = []string{"raw-buffered", "raw-unbuffered", "func()", "func()error", "func()chan-error-buffered", "func()chan-error-unbuffered", "func()<-chan-error-buffered", "func()chan-error-nil", "func()named-int-error-type"}

// c10Errno is an error type that is a plain value (like syscall.Errno): a result of this type is never nil.
type c10Errno int

func (e c10Errno) Error() string { return fmt.Sprintf("errno %d", int(e)) }

func (c10) Thresholds(tier string) map[string]int64 {
	th := map[string]int64{
		"scripts":                                    1000,
		"commands-executed":                          2500,
		"waiting-polls-observed":                     3000,
		"polls-issued-with-gate-closed":              3000,
		"pending-command-is-the-last-statement":      100,
		"completion-by-closing-the-channel":          200,
		"completion:nil":                             1200,
		"completion:error":                           600,
		"error-surfaced-exactly-once":                600,
		"resumed-at-next-statement":                  2000,
		"handler-invoked-exactly-once":               2500,
		"real-timing-runners":                        400,
		"real-timing-commands":                       1500,
		"order:handler-returned-before-poll":         50,
		"order:poll-before-handler-returned":         50,
		"wait-commands":                              10,
		"wait-fractional":                            6,
		"waits-longer-than-the-run":                  8,
		"refused-restore-while-a-command-is-pending": 200,
		"race-detector-enabled-children":             1,
		"race-canary-reported":                       1,
	}
	for _, s := range c10Shapes {
		th["shape:"+s] = 150
	}
	for p := 0; p <= 5; p++ {
		th[fmt.Sprintf("schedule:complete-after-%d-polls", p)] = 150
	}
	return th
}

func (c10) Rule() string {
	return "all children run under the Go race detector (reports are counted from GORACE log files by the parent). Case 0 = the built-in <<wait n>> for n in {0, 0.0009, 0.0137, 0.05, 0.25, 0.5, 0.9, 1, 1.25} run in parallel runners, and case 1 = sub-millisecond and odd fractional waits (0.0009, 0.00051, 0.0011, 0.0137, 0.00999, 0.0025) 25 times each, one after the other; case 0 also starts waits that are longer than any run (3*10^9 s ... 10^300 s, an infinity: beyond what a 64-bit count of nanoseconds expresses) and polls them for 300 ms: completion must not be observed earlier than n seconds after the call that started it (monotonic clock, lower bound only). Every other case = (a) one script with 1-5 commands between lines and sets, each command with a handler shape {" + strings.Join(c10Shapes, ", ") + "} and a completion schedule {complete on return, or complete after p in 1..5 polls} x {nil, sentinel error; for channel shapes, success is one time in three reported by closing the channel without a send}: completion is driven by the harness through a gate, so 'pending' is a logical state, not a timing; in a third of the scripts the last command is the very last statement of the dialogue (closing 0-2 enclosing blocks), so that the waiting protocol is also observed when nothing follows the command; (b) an abandon scenario: a pending command is abandoned by RestoreAt, the same command statement is executed again, and the abandoned invocation reports completion (with an error) first - the dialogue must keep waiting for the second invocation and then resume without error; (c) a real-timing run: 4 runners in parallel goroutines whose handlers sleep 0-2 ms in the bridge goroutine while the driver polls with 0-1 ms pauses. Oracle (a): every Next issued while the gate is closed returns ErrWaitingForCommandCompletion (a 10 s watchdog opens the gate if the call does not return: a call that returns anything else than 'waiting' although it was issued with the gate closed is the violation), with no store write, no probe and no handler invocation during it; after the gate opens, buffered-channel shapes must be observed by the very next Next, goroutine / unbuffered shapes within a bounded number of polls; a reported error surfaces exactly once (errors.Is sentinel) and the dialogue then resumes at the statement after the command; every executed command invoked its handler exactly once with the arguments written. Oracle (b): each runner's elements are the script's lines in order, every handler ran once, zero race reports with a ysgo frame. Non-trivial: >=1 command stayed pending for >=1 poll. Distinct by hash of script+shapes+schedules."
}

func (c10) Assumptions() []string {
	return []string{
		"a command that is complete when its handler returns may still be reported as 'waiting' by the call that dispatched it (a runner may notice completion only at the next poll); such polls are accepted",
		"'Next blocked' is decided logically: the only other explanation for a non-waiting result of a call issued with the gate closed is a scheduling stall longer than the 10 s watchdog",
		"for handler shapes that run in a goroutine started by the bridge, the handler's invocation is awaited (bounded) before it is judged, because the bridge is allowed to start it asynchronously",
		"wait: only a lower bound is checked; the start stamp is taken before the call that starts the wait and the end stamp after the call that observes completion",
		"a race report without any ysgo/antlr frame would be a harness bug and makes the run inconclusive, not a violation",
	}
}

var errSentinel = errors.New("sentinel completion error injected by the harness")

type c10Cmd struct {
	name  string
	shape int
	polls int
	fail  bool
	err   error // the error value reported when fail is set (nil: the harness's sentinel)
	// closeOnly: success is reported by closing the channel without sending anything (defer close(done))
	closeOnly bool
	id        string
	num       float64
	flag      bool
	mu        sync.Mutex
	calls     int
	got       string
	gate      chan struct{}
	ch        chan error
	opened    bool
	// real-timing order evidence
	returned atomic.Bool
}

func (k *c10Cmd) record(id string, n float64, f bool) {
	k.mu.Lock()
	k.calls++
	k.got = fmt.Sprintf("%s %v %v", id, n, f)
	k.mu.Unlock()
}

func (k *c10Cmd) callCount() int {
	k.mu.Lock()
	defer k.mu.Unlock()
	return k.calls
}

func (k *c10Cmd) result() error {
	if k.shape == 8 {
		return c10Errno(5)
	}
	if k.fail {
		if k.err != nil {
			return k.err
		}
		return errSentinel
	}
	return nil
}

// c10ErrValues are error values a game's command may well report: to the runner they are errors like any other.
var c10ErrValues = []error{nil, nil, context.Canceled, context.DeadlineExceeded, io.EOF, io.ErrUnexpectedEOF, os.ErrNotExist}

// complete reports completion (opens the gate).
func (k *c10Cmd) complete() {
	if k.opened {
		return
	}
	k.opened = true
	switch k.shape {
	case 0, 4, 6: // buffered channel owned by the harness
		k.mu.Lock()
		ch := k.ch
		k.mu.Unlock()
		if ch != nil {
			if k.closeOnly {
				close(ch)
			} else {
				ch <- k.result()
			}
		}
	case 1, 5: // unbuffered: the send completes when the runner polls
		k.mu.Lock()
		ch := k.ch
		k.mu.Unlock()
		if ch != nil {
			if k.closeOnly {
				close(ch)
			} else {
				go func() { ch <- k.result() }()
			}
		}
	default:
		close(k.gate)
	}
}

func (k *c10Cmd) buffered() bool { return k.shape == 0 || k.shape == 4 || k.shape == 6 }

func valsToTyped(a []*variable.Value) (string, float64, bool) {
	id, n, f := "?", -1.0, false
	if len(a) == 3 && a[0] != nil && a[0].String != nil && a[1] != nil && a[1].Number != nil && a[2] != nil && a[2].Boolean != nil {
		id, n, f = *a[0].String, *a[1].Number, *a[2].Boolean
	}
	return id, n, f
}

func (k *c10Cmd) register(rr *mon.Real) error {
	mkch := func(buffered bool) chan error {
		var ch chan error
		if buffered {
			ch = make(chan error, 1)
		} else {
			ch = make(chan error)
		}
		k.mu.Lock()
		k.ch = ch
		k.mu.Unlock()
		if k.polls == 0 {
			k.opened = true
			switch {
			case k.closeOnly:
				close(ch)
			case buffered:
				ch <- k.result()
			default:
				go func() { ch <- k.result() }()
			}
		}
		return ch
	}
	switch k.shape {
	case 0, 1:
		rr.DR.AddCommand(k.name, func(a []*variable.Value) <-chan error {
			k.record(valsToTyped(a))
			return mkch(k.shape == 0)
		})
		return nil
	case 2:
		return rr.DR.ConvertAndAddCommand(k.name, func(id string, n float64, f bool) {
			k.record(id, n, f)
			<-k.gate
			k.returned.Store(true)
		})
	case 3:
		return rr.DR.ConvertAndAddCommand(k.name, func(id string, n float64, f bool) error {
			k.record(id, n, f)
			<-k.gate
			k.returned.Store(true)
			return k.result()
		})
	case 8:
		return rr.DR.ConvertAndAddCommand(k.name, func(id string, n float64, f bool) c10Errno {
			k.record(id, n, f)
			<-k.gate
			k.returned.Store(true)
			return c10Errno(5)
		})
	case 4, 5:
		return rr.DR.ConvertAndAddCommand(k.name, func(id string, n float64, f bool) chan error {
			k.record(id, n, f)
			return mkch(k.shape == 4)
		})
	case 6:
		return rr.DR.ConvertAndAddCommand(k.name, func(id string, n float64, f bool) <-chan error {
			k.record(id, n, f)
			return mkch(true)
		})
	default:
		return rr.DR.ConvertAndAddCommand(k.name, func(id string, n float64, f bool) chan error {
			k.record(id, n, f)
			return nil
		})
	}
}

// c10IDArg writes the first argument of a command as a word or, half of the time, as an {expression}
// (an expression FOLLOWED by words).
func c10IDArg(r *core.Rand, c *core.Ctx, id string) string {
	if r.Bool() {
		c.Feature("argument-written-as-expression-before-words")
		return "{\"" + id + "\"}"
	}
	return id
}

type c10Item struct {
	kind string // "line", "set", "cmd"
	text string
	v    string
	cmd  *c10Cmd
}

func (p c10) Run(c *core.Ctx) {
	if raceEnabled {
		c.Feature("race-detector-enabled-children")
	}
	if c.Idx == 0 {
		p.waits(c)
		if !c.Failed() {
			p.longWaits(c)
		}
		return
	}
	if c.Idx == 1 {
		p.tinyWaits(c)
		return
	}
	p.gated(c)
	if !c.Failed() {
		p.abandoned(c)
	}
	if !c.Failed() {
		p.realTiming(c)
	}
}

// abandoned: a pending command is abandoned by RestoreAt, the same command statement is executed
// again, and the ABANDONED invocation reports completion first (with an error): that stale completion
// belongs to nothing the dialogue is waiting for.
func (p c10) abandoned(c *core.Ctx) {
	r := c.R
	shape := []int{2, 3, 0, 4}[r.Intn(4)] // func(), func() error, raw buffered, func() chan error
	script := "title: Start\n---\nbefore\n<<work w 1.5 true>>\nafter\n===\n"
	rr, err, pan := mon.Create(nil, "", []string{script})
	if err != nil || pan != "" {
		c.Violate("the abandon script failed to load", map[string]any{"error": fmt.Sprint(err), "panic": pan})
		return
	}
	// every invocation gets its own gate / channel
	type inv struct {
		gate chan struct{}
		ch   chan error
		fail bool
	}
	var mu sync.Mutex
	var invs []*inv
	newInv := func() *inv {
		mu.Lock()
		defer mu.Unlock()
		v := &inv{gate: make(chan struct{}), ch: make(chan error, 1), fail: len(invs) == 0}
		invs = append(invs, v)
		return v
	}
	numInvs := func() int { mu.Lock(); defer mu.Unlock(); return len(invs) }
	getInv := func(i int) *inv { mu.Lock(); defer mu.Unlock(); return invs[i] }
	res := func(v *inv) error {
		if v.fail {
			return errSentinel
		}
		return nil
	}
	var regErr error
	switch shape {
	case 2:
		regErr = rr.DR.ConvertAndAddCommand("work", func(id string, n float64, f bool) { v := newInv(); <-v.gate })
	case 3:
		regErr = rr.DR.ConvertAndAddCommand("work", func(id string, n float64, f bool) error { v := newInv(); <-v.gate; return res(v) })
	case 0:
		rr.DR.AddCommand("work", func(a []*variable.Value) <-chan error { return newInv().ch })
	default:
		regErr = rr.DR.ConvertAndAddCommand("work", func(id string, n float64, f bool) chan error { return newInv().ch })
	}
	if regErr != nil {
		c.Violate("registering a handler of a supported shape failed: "+regErr.Error(), nil)
		return
	}
	complete := func(v *inv) {
		if shape == 2 || shape == 3 {
			func() {
				defer func() { recover() }() // (the watchdog may have opened it)
				close(v.gate)
			}()
		} else {
			v.ch <- res(v)
		}
	}
	var trace []string
	blocked := false
	step := func() mon.Obs {
		// every call runs under the watchdog: if it does not return within 10 s all gates are opened, so that
		// the call (and the case) can end; a call that needed that had blocked on a handler
		var fired atomic.Bool
		t := time.AfterFunc(10*time.Second, func() {
			fired.Store(true)
			for i := 0; i < numInvs(); i++ {
				v := getInv(i)
				func() {
					defer func() { recover() }() // (a gate may be closed already)
					close(v.gate)
				}()
			}
		})
		o := rr.Once(0)
		t.Stop()
		if fired.Load() {
			blocked = true
		}
		trace = append(trace, "Next = "+o.String())
		return o
	}
	fail := func(what string) {
		c.Violate("abandoned command: "+what, map[string]any{"readers": []string{script}, "shape": c10Shapes[shape], "trace": trace})
	}
	defer func() {
		if blocked && !c.Failed() {
			fail("a call of Next blocked while a handler was running (it returned only after the 10 s watchdog released every handler)")
		}
	}()
	waitInvs := func(n int) bool {
		for w := 0; w < 20000; w++ {
			if numInvs() >= n {
				return true
			}
			time.Sleep(100 * time.Microsecond)
		}
		return false
	}
	snap := rr.DR.Snapshot()
	if o := step(); o.Kind != mon.KLine {
		fail("want the first line, got " + o.String())
		return
	}
	if o := step(); o.Kind != mon.KWaiting {
		fail("the command has not reported completion, but Next returned " + o.String())
		return
	}
	if !waitInvs(1) {
		fail("the handler was not invoked")
		return
	}
	if err := rr.RestoreAt(snap); err != nil {
		fail("RestoreAt failed: " + err.Error())
		return
	}
	trace = append(trace, "RestoreAt(initial snapshot) while the command is pending")
	if o := step(); o.Kind != mon.KLine || o.Text != "before" {
		fail("after the restore, want the first line again, got " + o.String())
		return
	}
	if o := step(); o.Kind != mon.KWaiting {
		fail("the second execution of the command has not reported completion, but Next returned " + o.String())
		return
	}
	if !waitInvs(2) {
		fail("the handler was not invoked for the second execution of the command statement")
		return
	}
	// the abandoned invocation completes now, with an error
	complete(getInv(0))
	trace = append(trace, "(the ABANDONED first invocation reports completion with an error)")
	time.Sleep(2 * time.Millisecond)
	for k := 0; k < 5; k++ {
		if o := step(); o.Kind != mon.KWaiting {
			fail("the completion of an abandoned invocation was taken for the completion of the pending one: Next returned " + o.String())
			return
		}
	}
	complete(getInv(1))
	trace = append(trace, "(the second invocation reports completion without error)")
	var o mon.Obs
	for k := 0; k < 20000; k++ {
		o = rr.Once(0)
		if o.Kind != mon.KWaiting {
			break
		}
		time.Sleep(100 * time.Microsecond)
	}
	trace = append(trace, "Next = "+o.String())
	if o.Kind != mon.KLine || o.Text != "after" {
		fail("after the pending invocation completed without error, want the line after the command, got " + o.String())
		return
	}
	if numInvs() != 2 {
		fail(fmt.Sprintf("the handler was invoked %d times for 2 executed command statements", numInvs()))
		return
	}
	c.Feature("abandoned-invocation-completes-late")
}

func (p c10) gated(c *core.Ctx) {
	r := c.R
	var items []c10Item
	var b strings.Builder
	b.WriteString("title: Start\n---\n")
	ncmd := r.Range(1, 5)
	id := 0
	addFiller := func() {
		for k := r.Intn(3); k > 0; k-- {
			id++
			if r.Bool() {
				items = append(items, c10Item{kind: "line", text: fmt.Sprintf("L%d", id)})
				fmt.Fprintf(&b, "L%d\n", id)
			} else {
				items = append(items, c10Item{kind: "set", v: fmt.Sprintf("v%d", id)})
				fmt.Fprintf(&b, "<<set $v%d to %d>>\n", id, id)
			}
		}
	}
	var cmds []*c10Cmd
	tail := r.Chance(1, 3)
	for i := 0; i < ncmd; i++ {
		addFiller()
		k := &c10Cmd{name: fmt.Sprintf("cmd%d", i), shape: r.Intn(len(c10Shapes)), polls: r.Intn(6), gate: make(chan struct{}), err: c10ErrValues[r.Intn(len(c10ErrValues))]}
		k.fail = r.Chance(1, 3) && k.shape != 2 && k.shape != 7 || k.shape == 8
		if k.shape == 7 {
			k.polls = 0 // a nil channel is an immediate error
		}
		if !k.fail && (k.shape <= 1 || k.shape >= 4 && k.shape <= 6) && r.Chance(1, 3) {
			k.closeOnly = true
			c.Feature("completion-by-closing-the-channel")
		}
		if k.polls == 0 && (k.shape == 2 || k.shape == 3 || k.shape == 8) {
			k.opened = true
			close(k.gate)
		}
		k.id, k.num, k.flag = fmt.Sprintf("c%d", i), float64(r.Range(0, 9))+0.5, r.Bool()
		cmds = append(cmds, k)
		items = append(items, c10Item{kind: "cmd", cmd: k})
		c.Feature("shape:" + c10Shapes[k.shape])
		c.Feature(fmt.Sprintf("schedule:complete-after-%d-polls", k.polls))
		if i == ncmd-1 && tail {
			// the command is the very last statement of the dialogue: it closes 0-2 enclosing blocks
			ind := ""
			for d := r.Intn(3); d > 0; d-- {
				fmt.Fprintf(&b, "%s<<if true>>\n", ind)
				ind += "    "
			}
			fmt.Fprintf(&b, "%s<<%s %s %v %v>>\n", ind, k.name, c10IDArg(r, c, k.id), k.num, k.flag)
			for len(ind) > 0 {
				ind = ind[4:]
				fmt.Fprintf(&b, "%s<<endif>>\n", ind)
			}
			c.Feature("command-is-the-last-statement")
			if k.polls > 0 {
				c.Feature("pending-command-is-the-last-statement")
			}
			break
		}
		fmt.Fprintf(&b, "<<%s %s %v %v>>\n", k.name, c10IDArg(r, c, k.id), k.num, k.flag)
		// a line follows every command, so that the call that notices a completion returns an element
		// (two adjacent commands are exercised by the real-timing workload)
		id++
		items = append(items, c10Item{kind: "line", text: fmt.Sprintf("A%d", id)})
		fmt.Fprintf(&b, "A%d\n", id)
	}
	if tail {
		b.WriteString("===\n")
	} else {
		addFiller()
		items = append(items, c10Item{kind: "line", text: "end"})
		b.WriteString("end\n===\n")
	}
	script := b.String()
	st := mon.NewRecStorer()
	rr, err, pan := mon.Create(st, "", []string{script})
	if err != nil || pan != "" {
		c.Violate("a script of commands failed to load", map[string]any{"readers": []string{script}, "error": fmt.Sprint(err), "panic": pan})
		return
	}
	for _, k := range cmds {
		if err := k.register(rr); err != nil {
			c.Violate("registering a handler of a supported shape failed: "+err.Error(), map[string]any{"shape": c10Shapes[k.shape]})
			return
		}
	}
	c.Feature("scripts")
	var trace []string
	blockedUnexpectedly := false
	describe := func() []string {
		var d []string
		for _, k := range cmds {
			d = append(d, fmt.Sprintf("%s: shape %s, complete after %d polls, error=%v", k.name, c10Shapes[k.shape], k.polls, k.fail))
		}
		return d
	}
	fail := func(what string) {
		c.Violate(what, map[string]any{"readers": []string{script}, "commands": describe(), "trace": trace})
	}
	totalCalls := func() int {
		n := 0
		for _, k := range cmds {
			n += k.callCount()
		}
		return n
	}
	// next issues one Next; gateClosedFor is the pending command (nil if none): a watchdog opens its gate
	// if the call does not return.
	next := func(pending *c10Cmd) (mon.Obs, bool) {
		var fired atomic.Bool
		// every call runs under the watchdog: if it does not return, all gates are opened so that the
		// call (and the case) can end; a call that needed that to return had blocked
		t := time.AfterFunc(10*time.Second, func() {
			fired.Store(true)
			for _, k := range cmds {
				k.complete()
			}
		})
		o := rr.Once(int(r.U64() % 5))
		t.Stop()
		trace = append(trace, "Next = "+o.String())
		if fired.Load() && pending == nil {
			blockedUnexpectedly = true
		}
		return o, fired.Load()
	}
	pendingPolls := 0
	i := 0
	var o mon.Obs
	defer func() {
		if blockedUnexpectedly && !c.Failed() {
			fail("a call of Next blocked (it returned only after the 10 s watchdog released every handler)")
		}
	}()
	have := false // o holds an observation not consumed yet
	for i < len(items) {
		if !have {
			o, _ = next(nil)
		}
		if blockedUnexpectedly {
			fail("a call of Next blocked while a handler was running (it returned only after the 10 s watchdog released every handler)")
			return
		}
		have = false
		// walk the items this observation accounts for
		for ; i < len(items); i++ {
			it := items[i]
			if it.kind == "set" {
				if _, ok := st.Vals()[it.v]; !ok {
					fail(fmt.Sprintf("statement <<set $%s>> before the returned element was not executed", it.v))
					return
				}
				continue
			}
			if it.kind == "line" {
				if o.Kind != mon.KLine || o.Text != it.text {
					fail(fmt.Sprintf("want line %q, got %s", it.text, o))
					return
				}
				i++
				break
			}
			// a command
			k := it.cmd
			c.Feature("commands-executed")
			// the handler is (being) invoked: wait for the invocation to be recorded
			for w := 0; k.callCount() == 0 && w < 20000; w++ {
				time.Sleep(100 * time.Microsecond)
			}
			if k.callCount() != 1 {
				fail(fmt.Sprintf("command %s: handler invoked %d times when the command statement was executed, want 1", k.name, k.callCount()))
				return
			}
			if want := fmt.Sprintf("%s %v %v", k.id, k.num, k.flag); k.got != want {
				fail(fmt.Sprintf("command %s: handler received (%s), want (%s)", k.name, k.got, want))
				return
			}
			writes, calls := st.Writes, totalCalls()
			sideEffects := func() string {
				if st.Writes != writes {
					return "the variable store was written"
				}
				if totalCalls() != calls {
					return "a handler was invoked"
				}
				return ""
			}
			// polls while the command is pending (gate closed)
			polled := 0
			if k.polls > 0 {
				if o.Kind != mon.KWaiting {
					fail(fmt.Sprintf("command %s has not reported completion, but the Next that dispatched it returned %s", k.name, o))
					return
				}
				c.Feature("waiting-polls-observed")
				for polled = 1; polled < k.polls; polled++ {
					if r.Chance(1, 5) {
						// the host tries to load a save that names a node this dialogue does not have: the restore
						// is refused and changes nothing - the command is still pending
						err := rr.RestoreAt(&ysgo.Snapshot{CurrentNode: "NoSuchNode", VisitedNodes: map[string]int{"Start": 2}})
						trace = append(trace, fmt.Sprintf("RestoreAt(snapshot of an unknown node) = %v", err))
						if err == nil {
							fail("RestoreAt accepted a snapshot naming an unknown node")
							return
						}
						c.Feature("refused-restore-while-a-command-is-pending")
					}
					var fired bool
					o, fired = next(k)
					c.Feature("polls-issued-with-gate-closed")
					if fired {
						fail(fmt.Sprintf("Next blocked while command %s was pending (it returned only after the watchdog reported completion)", k.name))
						return
					}
					if o.Kind != mon.KWaiting {
						fail(fmt.Sprintf("command %s has not reported completion, but Next returned %s", k.name, o))
						return
					}
					c.Feature("waiting-polls-observed")
					if d := sideEffects(); d != "" {
						fail(fmt.Sprintf("while command %s was pending, a call of Next had a side effect: %s", k.name, d))
						return
					}
				}
				pendingPolls += polled
				k.complete()
				trace = append(trace, fmt.Sprintf("(harness reports completion of %s, error=%v)", k.name, k.fail))
				o, _ = next(nil)
				if k.buffered() && o.Kind == mon.KWaiting {
					fail(fmt.Sprintf("command %s reported completion on a buffered channel before this call, but Next still says waiting (completion lost)", k.name))
					return
				}
			}
			// completion has been reported (or the command was complete on return): accept a bounded number of waiting polls
			late := 0
			for o.Kind == mon.KWaiting {
				if d := sideEffects(); d != "" {
					fail(fmt.Sprintf("while command %s was pending, a call of Next had a side effect: %s", k.name, d))
					return
				}
				late++
				if late > 30000 {
					fail(fmt.Sprintf("command %s reported completion but the dialogue never left the waiting state (30000 polls, 1 ms apart)", k.name))
					return
				}
				if late > 50 {
					time.Sleep(time.Millisecond)
				} else {
					runtime.Gosched()
				}
				o = rr.Once(0)
				if o.Kind != mon.KWaiting {
					trace = append(trace, fmt.Sprintf("(after %d more polls) Next = %s", late, o))
				}
			}
			c.MaxOf("polls-until-completion-was-noticed", late)
			if k.callCount() != 1 {
				fail(fmt.Sprintf("command %s: handler invoked %d times, want exactly once", k.name, k.callCount()))
				return
			}
			c.Feature("handler-invoked-exactly-once")
			if k.shape == 7 {
				if o.Kind != mon.KErr {
					fail(fmt.Sprintf("command %s returned a nil channel: want an error, got %s", k.name, o))
					return
				}
				o, _ = next(nil)
			} else if k.fail {
				c.Feature("completion:error")
				if o.Kind != mon.KErr || !errors.Is(o.Err, k.result()) {
					fail(fmt.Sprintf("command %s completed with an error: want that error from Next, got %s", k.name, o))
					return
				}
				// exactly once: the following call resumes at the statement after the command
				o, _ = next(nil)
				if o.Kind == mon.KErr && errors.Is(o.Err, k.result()) {
					fail(fmt.Sprintf("the error reported by command %s surfaced twice", k.name))
					return
				}
				c.Feature("error-surfaced-exactly-once")
			} else {
				c.Feature("completion:nil")
				if o.Kind == mon.KErr {
					fail(fmt.Sprintf("command %s completed without error but Next returned %s", k.name, o))
					return
				}
			}
			c.Feature("resumed-at-next-statement")
			// o now accounts for what follows the command
		}
		_ = have
	}
	// the end
	if tail && o.Kind != mon.KEnd {
		fail("after the last statement (a command) completed the dialogue did not end: " + o.String())
		return
	}
	e := rr.Once(0)
	if e.Kind != mon.KEnd {
		trace = append(trace, "Next = "+e.String())
		fail("after the last line the dialogue did not end: " + e.String())
		return
	}
	for _, k := range cmds {
		if k.callCount() != 1 {
			fail(fmt.Sprintf("command %s: handler invoked %d times over the whole run, want exactly once", k.name, k.callCount()))
			return
		}
		k.complete() // release any goroutine still parked on a gate
	}
	if pendingPolls > 0 {
		c.Nontrivial(script, strings.Join(describe(), ";"))
	}
	if c.WantSample() && pendingPolls >= 3 {
		c.Sample(map[string]any{"script": script, "commands": describe(), "trace": trace})
	}
}

// realTiming: handlers sleep in the bridge goroutine while the driver polls; several runners in parallel.
func (p c10) realTiming(c *core.Ctx) {
	const runners = 4
	type result struct {
		err      string
		before   int
		after    int
		commands int
	}
	seeds := make([]uint64, runners)
	for i := range seeds {
		seeds[i] = c.R.U64()
	}
	res := make([]result, runners)
	var wg sync.WaitGroup
	for g := 0; g < runners; g++ {
		wg.Add(1)
		go func(g int) {
			defer wg.Done()
			r := core.NewRand(seeds[g])
			n := r.Range(2, 5)
			var b strings.Builder
			b.WriteString("title: Start\n---\n")
			for i := 0; i < n; i++ {
				// two adjacent commands per round: the second is dispatched by the call that notices the first one's completion
				fmt.Fprintf(&b, "<<set $x to %d>>\n<<work%d w%d %d.5 true>>\n<<work%d w%d %d.5 false>>\nL%d {$x}\n", i, i%2, i, i, (i+1)%2, i, i, i)
			}
			b.WriteString("===\n")
			st := mon.NewRecStorer()
			rr, err, pan := mon.Create(st, "", []string{b.String()})
			if err != nil || pan != "" {
				res[g].err = "load failed: " + fmt.Sprint(err) + pan
				return
			}
			var calls, returned atomic.Int64
			sleeps := make([]time.Duration, 2*n)
			for i := range sleeps {
				sleeps[i] = time.Duration(r.Intn(2000)) * time.Microsecond
			}
			h0 := func(id string, x float64, f bool) {
				k := calls.Add(1)
				time.Sleep(sleeps[(k-1)%int64(2*n)])
				returned.Add(1)
			}
			h1 := func(id string, x float64, f bool) error {
				k := calls.Add(1)
				time.Sleep(sleeps[(k-1)%int64(2*n)])
				returned.Add(1)
				return nil
			}
			// every other runner uses handlers that touch nothing the harness shares with them (they only
			// sleep): the counters above are synchronisation the race detector would honour, and could hide a
			// race between the runner and the bridge goroutine
			pure := g%2 == 1
			var c0, c1 any = h0, h1
			if pure {
				d0, d1 := sleeps[0], sleeps[1%len(sleeps)]
				c0 = func(id string, x float64, f bool) { time.Sleep(d0) }
				c1 = func(id string, x float64, f bool) error { time.Sleep(d1); return nil }
			}
			if e := rr.DR.ConvertAndAddCommand("work0", c0); e != nil {
				res[g].err = e.Error()
				return
			}
			if e := rr.DR.ConvertAndAddCommand("work1", c1); e != nil {
				res[g].err = e.Error()
				return
			}
			line := 0
			for polls := 0; polls < 30000; polls++ {
				retBefore := returned.Load()
				o := rr.Once(0)
				switch o.Kind {
				case mon.KWaiting:
					if !pure && int(calls.Load()) > 2*line+2 {
						res[g].err = fmt.Sprintf("handlers invoked %d times after %d rounds of two commands", calls.Load(), line)
						return
					}
					// distinct orders of {handler return, poll}
					if retBefore > int64(2*line) {
						res[g].before++ // the handler had returned before this poll was issued, yet the poll said waiting
					} else {
						res[g].after++
					}
					if p := r.Intn(1000); p > 0 {
						time.Sleep(time.Duration(p) * time.Microsecond)
					}
				case mon.KLine:
					want := fmt.Sprintf("L%d %d", line, line)
					if o.Text != want {
						res[g].err = fmt.Sprintf("want line %q, got %s", want, o)
						return
					}
					line++
					if !pure && int(calls.Load()) != 2*line {
						res[g].err = fmt.Sprintf("after line %d the handlers were invoked %d times, want %d", line, calls.Load(), 2*line)
						return
					}
				case mon.KEnd:
					if line != n {
						res[g].err = fmt.Sprintf("dialogue ended after %d of %d lines", line, n)
					}
					res[g].commands = 2 * n
					return
				default:
					res[g].err = "unexpected " + o.String()
					return
				}
			}
			res[g].err = "the dialogue did not finish within 30000 polls"
		}(g)
	}
	wg.Wait()
	for g, rs := range res {
		if rs.err != "" {
			c.Violate("real-timing run: "+rs.err, map[string]any{"runner": g})
			return
		}
		c.Feature("real-timing-runners")
		c.FeatureN("real-timing-commands", rs.commands)
		c.FeatureN("order:handler-returned-before-poll", rs.before)
		c.FeatureN("order:poll-before-handler-returned", rs.after)
	}
}

// waits: the built-in wait command.
func (p c10) waits(c *core.Ctx) {
	ns := []float64{0, 0.0009, 0.0137, 0.05, 0.25, 0.5, 0.9, 1, 1.25, 0.00051, 0.1005}
	type out struct {
		err     string
		elapsed time.Duration
	}
	res := make([]out, len(ns))
	var wg sync.WaitGroup
	for i, n := range ns {
		wg.Add(1)
		go func(i int, n float64) {
			defer wg.Done()
			script := fmt.Sprintf("title: Start\n---\nbefore\n<<wait %v>>\nafter\n===\n", n)
			rr, err, pan := mon.Create(nil, "", []string{script})
			if err != nil || pan != "" {
				res[i].err = "load failed: " + fmt.Sprint(err) + pan
				return
			}
			if o := rr.Once(0); o.Kind != mon.KLine {
				res[i].err = "want line before, got " + o.String()
				return
			}
			start := time.Now() // before the call that starts the wait
			for {
				o := rr.Once(0)
				if o.Kind == mon.KWaiting {
					if n >= 0.05 {
						time.Sleep(200 * time.Microsecond)
					}
					if time.Since(start) > 60*time.Second {
						res[i].err = "wait did not complete within 60 s"
						return
					}
					continue
				}
				res[i].elapsed = time.Since(start) // after the call that observed completion
				if o.Kind != mon.KLine || o.Text != "after" {
					res[i].err = "want line after, got " + o.String()
				}
				return
			}
		}(i, n)
	}
	wg.Wait()
	margins := map[string]string{}
	for i, n := range ns {
		if res[i].err != "" {
			c.Violate(fmt.Sprintf("<<wait %v>>: %s", n, res[i].err), nil)
			return
		}
		need := time.Duration(n * float64(time.Second))
		c.Feature("wait-commands")
		if n != float64(int(n)) {
			c.Feature("wait-fractional")
		}
		margins[fmt.Sprint(n)] = (res[i].elapsed - need).String()
		if res[i].elapsed < need {
			c.Violate(fmt.Sprintf("<<wait %v>> reported completion after %v, earlier than %v", n, res[i].elapsed, need), map[string]any{"n": n, "elapsed": res[i].elapsed.String()})
			return
		}
		c.Nontrivial(fmt.Sprint("wait", n))
	}
	c.Sample(map[string]any{"wait_lower_bound_margins": margins})
}

// longWaits: waits far longer than any run (and longer than a 64-bit count of nanoseconds can express): the wait
// is started and polled for 300 ms; a completion observed in that time is earlier than n seconds. An error is
// not a completion and is accepted.
func (p c10) longWaits(c *core.Ctx) {
	for _, w := range []struct {
		src  string
		need float64
	}{
		{"3000000000", 3e9}, {"9223372036", 9223372036}, {"9223372037", 9223372037}, {"10000000000", 1e10}, {"18446744074", 18446744074},
		{"{1000000 * 1000000 * 1000000 * 1000000}", 1e24}, {"1" + strings.Repeat("0", 300), 1e300}, {"{1 / 0}", math.Inf(1)},
	} {
		script := "title: Start\n---\nbefore\n<<wait " + w.src + ">>\nafter\n===\n"
		rr, err, pan := mon.Create(nil, "", []string{script})
		if err != nil || pan != "" {
			c.Violate("a script with a long wait failed to load", map[string]any{"readers": []string{script}, "error": fmt.Sprint(err), "panic": pan})
			return
		}
		if o := rr.Once(0); o.Kind != mon.KLine {
			c.Violate("want the first line, got "+o.String(), map[string]any{"readers": []string{script}})
			return
		}
		start := time.Now()
		for time.Since(start) < 300*time.Millisecond {
			o := rr.Once(0)
			if o.Kind == mon.KWaiting {
				time.Sleep(2 * time.Millisecond)
				continue
			}
			if o.Kind == mon.KErr {
				c.Feature("long-wait-refused-with-an-error")
				break
			}
			c.Violate(fmt.Sprintf("<<wait %s>> reported completion after %v, earlier than %g seconds", c17Label(w.src), time.Since(start), w.need), map[string]any{
				"readers": []string{c17Label(script)}, "observed": o.String()})
			return
		}
		c.Feature("wait-commands")
		c.Feature("waits-longer-than-the-run")
	}
}

// tinyWaits: sub-millisecond and odd fractional waits, one after the other in one runner; each is
// measured on its own, so a scheduling delay can only lengthen a measurement, never shorten it.
func (p c10) tinyWaits(c *core.Ctx) {
	ns := []float64{0.0009, 0.00051, 0.0011, 0.0137, 0.00999, 0.0025}
	var b strings.Builder
	b.WriteString("title: Start\n---\nfirst\n")
	var order []float64
	for rep := 0; rep < 25; rep++ {
		for _, n := range ns {
			fmt.Fprintf(&b, "<<wait %v>>\nafter\n", n)
			order = append(order, n)
		}
	}
	b.WriteString("===\n")
	rr, err, pan := mon.Create(nil, "", []string{b.String()})
	if err != nil || pan != "" {
		c.Violate("the wait script failed to load", map[string]any{"error": fmt.Sprint(err), "panic": pan})
		return
	}
	if o := rr.Once(0); o.Kind != mon.KLine {
		c.Violate("want the first line, got "+o.String(), nil)
		return
	}
	min := map[float64]time.Duration{}
	for _, n := range order {
		start := time.Now()
		var o mon.Obs
		for {
			o = rr.Once(0)
			if o.Kind != mon.KWaiting || time.Since(start) > 30*time.Second {
				break
			}
		}
		el := time.Since(start)
		if o.Kind != mon.KLine {
			c.Violate(fmt.Sprintf("<<wait %v>>: want the following line, got %s", n, o), nil)
			return
		}
		need := time.Duration(n * float64(time.Second))
		c.Feature("wait-commands")
		c.Feature("wait-fractional")
		if m, ok := min[n]; !ok || el < m {
			min[n] = el
		}
		if el < need {
			c.Violate(fmt.Sprintf("<<wait %v>> reported completion after %v, earlier than %v", n, el, need), map[string]any{"n": n, "elapsed": el.String()})
			return
		}
	}
	m := map[string]string{}
	for n, d := range min {
		m[fmt.Sprint(n)] = d.String()
		c.Nontrivial(fmt.Sprint("tiny-wait", n))
	}
	c.Sample(map[string]any{"smallest_elapsed_time_observed_per_wait": m})
}

var raceHeader = regexp.MustCompile(`WARNING: DATA RACE`)

// Parent counts race-detector reports written by the children.
func (c10) Parent(p *core.ParentCtx, merged *core.Result) { countRaces(p, merged, "C10") }

// raceCanary is a positive control of the race-detector plumbing: a helper process built with the
// same -race binary and the same GORACE log_path mechanism performs one deliberate, harness-internal
// data race; if no report shows up in its log file, zero reports from the children mean nothing.
func raceCanary(args []string) int {
	x := 0
	done := make(chan struct{})
	go func() { x++; close(done) }()
	x++ // deliberately unsynchronised
	<-done
	time.Sleep(10 * time.Millisecond)
	fmt.Println("canary done", x)
	return 0
}

func init() { auxCommands["racecanary"] = raceCanary }

func runCanary(p *core.ParentCtx, merged *core.Result) {
	cmd := exec.Command(p.BinRace, "aux", "racecanary")
	cmd.Env = append(os.Environ(), "GORACE=halt_on_error=0 log_path="+filepath.Join(p.WorkDir, "canary"))
	_ = cmd.Run()
	files, _ := filepath.Glob(filepath.Join(p.WorkDir, "canary.*"))
	for _, f := range files {
		if b, err := os.ReadFile(f); err == nil && raceHeader.Match(b) {
			merged.Features["race-canary-reported"] = 1
			return
		}
	}
	merged.Inconclusive = append(merged.Inconclusive, "the race-detector canary (a deliberate race in a helper process) produced no report: the race plumbing does not work, zero reports are not evidence")
}

func countRaces(p *core.ParentCtx, merged *core.Result, id string) {
	runCanary(p, merged)
	files, _ := filepath.Glob(filepath.Join(p.WorkDir, "race.*"))
	total := 0
	seen := map[string]bool{}
	for _, f := range files {
		b, err := os.ReadFile(f)
		if err != nil {
			continue
		}
		for _, block := range strings.Split(string(b), "==================") {
			if !raceHeader.MatchString(block) {
				continue
			}
			total++
			// dedupe by the stack pair with line numbers and addresses stripped
			key := regexp.MustCompile(`(:[0-9]+|0x[0-9a-f]+|\+0x[0-9a-f]+|goroutine [0-9]+|T[0-9]+)`).ReplaceAllString(block, "")
			if seen[key] {
				continue
			}
			seen[key] = true
			target := false
			for _, line := range strings.Split(block, "\n") {
				if (strings.Contains(line, "github.com/remieven/ysgo") && !strings.Contains(line, "verifharness")) || strings.Contains(line, "antlr4-go/antlr") || strings.HasPrefix(strings.TrimSpace(line), "/repo/") {
					target = true
				}
			}
			if target {
				merged.Violations = append(merged.Violations, core.Violation{Property: id, Tier: p.Tier, Seed: p.Seed, Case: -1,
					What: "the race detector reported a data race with a ysgo/antlr frame", Detail: map[string]any{"report": block}})
			} else {
				merged.Inconclusive = append(merged.Inconclusive, "race report without a ysgo/antlr frame (harness bug?): "+tailStr(block, 600))
			}
		}
	}
	merged.Events["race-reports"] += int64(total)
	merged.Events["distinct-race-reports"] += int64(len(seen))
	merged.Events["race-log-files"] += int64(len(files))
}

var _ = model.None
