package props

import (
	"fmt"
	"strings"

	ysgo "github.com/remieven/ysgo"
	"github.com/remieven/ysgo/variable"
	"github.com/remieven/ysgo/verifharness/core"
	"github.com/remieven/ysgo/verifharness/gen"
	"github.com/remieven/ysgo/verifharness/hast"
	"github.com/remieven/ysgo/verifharness/model"
	"github.com/remieven/ysgo/verifharness/mon"
)

// C07 — snapshots are self-contained checkpoints; restore resumes from node entry.
type c07 struct{}

func init() { core.Register(c07{}) }

func (c07) ID() string { return "C07" }

// EvalFeatures names the counters of judged executions.
func (c07) EvalFeatures() []string {
	return []string{"save-points", "restore:fresh", "restore:mid-node", "restore:waiting-for-choice", "restore:waiting-for-command", "restore:ended", "restore:restored-before", "restore:donor-itself", "alias-probe-two-receivers", "unknown-node-restore-refused"}
}

func (c07) Cases(tier string) int {
	if tier == "thorough" {
		return 40000
	}
	return 1000
}

func (c07) Thresholds(tier string) map[string]int64 {
	return map[string]int64{
		"program-whose-Start-node-is-not-first":     30,
		"program-with-a-title-defined-twice":        60,
		"save-points":                               2000,
		"restore:fresh":                             300,
		"restore:mid-node":                          300,
		"restore:waiting-for-choice":                200,
		"restore:waiting-for-command":               300,
		"restore:ended":                             300,
		"restore:restored-before":                   300,
		"restore:donor-itself":                      300,
		"restore-crossed-jump-afterwards":           300,
		"alias-probe-two-receivers":                 300,
		"unknown-node-restore-refused":              500,
		"snapshot-after-jump":                       400,
		"prepopulated-store":                        200,
		"receiver-state-confirmed-by-hook":          1000,
		"host-modified-a-taken-snapshot":            1000,
		"host-write-between-donor-steps":            250,
		"restore:hand-built-snapshot-with-nil-maps": 400,
		"refused-restore-while-waiting-for-command": 60,
		"host-modified-a-restored-snapshot":         500,
	}
}

func (c07) Rule() string {
	return "case = one generated program (no random built-ins; visit-count lines; an unreachable node holding a never-completing command) and one PRNG donor path. Between donor steps the host now and then writes to the store it supplied. A snapshot is taken after EVERY step of the donor (step 0 included) and compared with the model's checkpoint of the most recent node entry; a deep copy made at creation is compared again after the donor and every receiver moved on. Selected save points (each distinct node entry + random ones) are restored into receivers in each state {fresh, mid-node, waiting for a choice, waiting for a command, ended, restored before, the donor itself}; right after RestoreAt the receiver's Snapshot() must equal the restored one, then the receiver is driven along PRNG continuations and compared with the model started at that checkpoint; one probe restores the same snapshot into two receivers advanced alternately; a snapshot naming an unknown node must be refused and change nothing; snapshots the host took or restored from are modified by the host afterwards (they are its own values), which must not reach any runner. Non-trivial: the save point is after >=1 jump and the receiver is not fresh, or an alias probe crossed a jump. Distinct by hash of scripts+choices+save point+receiver state."
}

func (c07) Assumptions() []string {
	return []string{
		"one program in five defines a title twice (the library accepts that): the FIRST definition is the node of that name - for jumps, for the tracking header and for RestoreAt alike - and the second is never entered; only the consistency of that choice is judged",
		"nil and empty maps are equal in snapshots; visit entries with count 0 equal absent entries",
		"receiver states are produced with the public API only (driving the receiver, or restoring it into the node that holds the never-completing command); the verif hook VerifState only confirms them for the evidence",
		"continuations are compared until the first error of the path",
	}
}

const limboNode = "Limbo"

// vandalize modifies a snapshot value the way a host might (it owns the value).
func vandalize(s *ysgo.Snapshot) {
	if s.Variables == nil {
		s.Variables = map[string]variable.Value{}
	}
	for k := range s.Variables {
		delete(s.Variables, k)
		break
	}
	s.Variables["intruder"] = *variable.NewString("written into a snapshot by the host")
	if s.VisitedNodes == nil {
		s.VisitedNodes = map[string]int{}
	}
	for k := range s.VisitedNodes {
		s.VisitedNodes[k] += 40
	}
	s.VisitedNodes["Start"] += 7
	s.CurrentNode = "NoSuchNode"
}

func (p c07) Run(c *core.Ctx) {
	r := c.R
	cfg := gen.DefaultFlow()
	cfg.StartNotFirst = true
	cfg.DupTitles = true
	cfg.EmptyTitle = true
	cfg.VisitLines = r.Bool()
	cfg.WJump = 12
	cfg.WStop = 3
	cfg.MaxNodes = 5
	cfg.Fuel = r.Range(2, 6)
	if c.Idx%4 == 0 {
		// no script-side assignments at all: the host's writes are then the only changes between two
		// node entries
		cfg.NoSets = true
		cfg.Probes = false
		cfg.Cmds = false
	}
	prog := gen.Flow(r, cfg)
	shapeFeatures(c, prog)
	// the node that parks a runner on a never-completing command
	id := 900000
	prog.Nodes = append(prog.Nodes, &hast.Node{Title: limboNode, Reader: prog.Readers - 1, Body: []*hast.Stmt{
		{K: hast.SCommand, Name: "hold", ID: id + 1},
		{K: hast.SLine, Parts: []hast.Part{hast.Lit("after hold")}, ID: id + 2},
	}})
	scripts := hast.Render(prog, hast.L0())
	var pre map[string]model.Val
	if r.Chance(1, 3) {
		pre = map[string]model.Val{"gold": model.N(float64(r.Range(0, 50))), "hero": model.S("Mae"), "armed": model.B(r.Bool())}
		c.Feature("prepopulated-store")
	}
	mk := func() *Pair {
		pair, err, pan := NewPair(prog, scripts, PairOpts{UseDefaultStore: r.Chance(1, 2), Pre: pre}, r.Fork())
		if err != nil || pan != "" {
			c.Violate("a generated, syntactically valid program failed to load", map[string]any{"readers": scripts, "error": fmt.Sprint(err), "panic": pan})
			return nil
		}
		pair.R.DR.AddCommand("hold", func([]*variable.Value) <-chan error { return make(chan error) })
		return pair
	}
	fail := func(pair *Pair, what string, extra map[string]any) {
		d := map[string]any{"readers": scripts, "prepopulated": fmt.Sprint(pre), "trace": pair.Trace}
		for k, v := range extra {
			d[k] = v
		}
		c.Violate(what, d)
	}

	// ---- donor run: a snapshot after every step
	donor := mk()
	if donor == nil {
		return
	}
	type save struct {
		snap  *ysgo.Snapshot
		copy  *ysgo.Snapshot
		check model.Snapshot
		step  int
		jumps int
	}
	var saves []save
	take := func(step int) bool {
		s := donor.R.DR.Snapshot()
		c.Feature("save-points")
		if d := mon.SnapDiff(donor.M.Check, s); d != "" {
			fail(donor, "snapshot differs from the state at the most recent node entry: "+d, map[string]any{"step": step, "snapshot": fmt.Sprint(*s)})
			return false
		}
		if donor.M.Jumps > 0 {
			c.Feature("snapshot-after-jump")
		}
		saves = append(saves, save{snap: s, copy: mon.CopySnap(s), check: donor.M.Check.Clone(), step: step, jumps: donor.M.Jumps})
		// a snapshot is the host's own value: whatever the host does to one must not reach the runner
		if step%3 == 0 {
			v := donor.R.DR.Snapshot()
			vandalize(v)
			if d := mon.SnapDiff(donor.M.Check, donor.R.DR.Snapshot()); d != "" {
				fail(donor, "after the host modified a snapshot it had taken, the runner's next snapshot is wrong (the snapshot shares state with the runner): "+d, map[string]any{"step": step})
				return false
			}
			c.Feature("host-modified-a-taken-snapshot")
		}
		return true
	}
	if !take(0) {
		return
	}
	var choices []int
	for step := 1; step <= 60; step++ {
		choice := 0
		if donor.M.Waiting() {
			choice = r.Intn(donor.M.NumOptions())
			choices = append(choices, choice)
		}
		want, got, diff := donor.Step(choice)
		if want.Kind == model.OBudget {
			c.Discard()
			return
		}
		if diff != "" {
			fail(donor, "donor run diverges from the model: "+diff, map[string]any{"expected": outcomeString(want), "observed": got.String()})
			return
		}
		// between two steps the host writes to the store it supplied (a new variable, or a same-type
		// overwrite of its own variable): the next node entry must capture it
		if (want.Kind == model.OLine || want.Kind == model.OOptions) && r.Chance(1, 3) {
			name := r.Pick("hostvar", "gold", "hôte")
			cur, has := donor.M.Vars[name]
			if !has || cur.T == hast.TNum {
				donor.HostWrite(name, model.N(float64(step*10+r.Intn(9))))
				c.Feature("host-write-between-donor-steps")
			}
		}
		if !take(step) {
			return
		}
		if want.Kind == model.OEnd || want.Kind == model.OErr {
			break
		}
	}
	stillIntact := func(when string) bool {
		for _, s := range saves {
			if d := mon.SnapEq(s.copy, s.snap); d != "" {
				fail(donor, "a snapshot changed after it was taken ("+when+"): "+d, map[string]any{"taken_after_step": s.step})
				return false
			}
		}
		return true
	}
	if !stillIntact("the donor moved on") {
		return
	}

	// ---- choose save points: every distinct node entry + a few random ones
	var picks []int
	lastJumps := -1
	for i, s := range saves {
		if s.jumps != lastJumps {
			picks = append(picks, i)
			lastJumps = s.jumps
		}
	}
	limit := 4
	if c.Thorough() {
		limit = 8
	}
	for len(picks) > limit {
		i := r.Intn(len(picks))
		picks = append(picks[:i], picks[i+1:]...)
	}
	picks = append(picks, r.Intn(len(saves)))

	states := []string{"fresh", "mid-node", "waiting-for-choice", "waiting-for-command", "ended", "restored-before", "donor-itself"}
	// prepare drives a new receiver into the requested state (public API only).
	prepare := func(state string) *Pair {
		if state == "donor-itself" {
			return donor
		}
		rc := mk()
		if rc == nil {
			return nil
		}
		switch state {
		case "fresh":
		case "mid-node", "waiting-for-choice", "ended":
			n := r.Range(1, 6)
			for i := 0; i < 80; i++ {
				if state == "mid-node" && i >= n {
					break
				}
				if state == "waiting-for-choice" && rc.M.Waiting() {
					break
				}
				choice := 0
				if rc.M.Waiting() {
					choice = r.Intn(rc.M.NumOptions())
				}
				want, _, diff := rc.Step(choice)
				if diff != "" || want.Kind == model.OBudget {
					return nil // the donor path already covers flow divergences; not this check's subject
				}
				if want.Kind == model.OEnd || want.Kind == model.OErr {
					break
				}
			}
			if state == "waiting-for-choice" && !rc.M.Waiting() {
				return nil
			}
			if state == "ended" && !rc.M.Ended {
				return nil
			}
		case "waiting-for-command":
			if err := rc.R.RestoreAt(&ysgo.Snapshot{CurrentNode: limboNode}); err != nil {
				return nil
			}
			if o := rc.R.Once(0); o.Kind != mon.KWaiting {
				return nil
			}
		case "restored-before":
			other := saves[r.Intn(len(saves))]
			if err := rc.R.RestoreAt(other.snap); err != nil {
				return nil
			}
			rc.M.Restore(other.check)
			for i := r.Intn(4); i > 0; i-- {
				choice := 0
				if rc.M.Waiting() {
					choice = r.Intn(rc.M.NumOptions())
				}
				want, _, diff := rc.Step(choice)
				if diff != "" || want.Kind != model.OLine && want.Kind != model.OOptions {
					break
				}
			}
		}
		_, _, wc, cp := rc.R.DR.VerifState()
		if state == "waiting-for-choice" && wc || state == "waiting-for-command" && cp || state == "fresh" && !wc && !cp {
			c.Feature("receiver-state-confirmed-by-hook")
		}
		return rc
	}
	// continueFrom drives a restored receiver and compares with the model.
	continueFrom := func(rc *Pair, steps int, state string, s save) bool {
		j0 := rc.M.Jumps
		for i := 0; i < steps; i++ {
			choice := 0
			if rc.M.Waiting() {
				choice = r.Intn(rc.M.NumOptions())
			}
			want, got, diff := rc.Step(choice)
			if want.Kind == model.OBudget {
				return true
			}
			if diff != "" {
				fail(rc, fmt.Sprintf("a runner restored (state %s) from the snapshot taken after donor step %d does not continue as the original did from that node entry: %s", state, s.step, diff),
					map[string]any{"expected": outcomeString(want), "observed": got.String(), "snapshot": fmt.Sprint(*s.copy), "donor_choices": choices})
				return false
			}
			if want.Kind == model.OEnd || want.Kind == model.OErr {
				break
			}
		}
		if rc.M.Jumps > j0 {
			c.Feature("restore-crossed-jump-afterwards")
		}
		return true
	}
	restoreInto := func(rc *Pair, state string, s save) bool {
		given := s.snap
		if r.Chance(1, 3) {
			// restore from a private copy which the host modifies right afterwards
			given = mon.CopySnap(s.snap)
			defer func() { c.Feature("host-modified-a-restored-snapshot") }()
			defer vandalize(given)
		}
		if err := rc.R.RestoreAt(given); err != nil {
			fail(rc, "RestoreAt refused a snapshot of the same script: "+err.Error(), map[string]any{"snapshot": fmt.Sprint(*s.copy), "receiver": state})
			return false
		}
		rc.M.Restore(s.check)
		rc.Trace = append(rc.Trace, fmt.Sprintf("RestoreAt(snapshot of donor step %d) into a runner in state %s", s.step, state))
		if d := mon.SnapEq(s.copy, rc.R.DR.Snapshot()); d != "" {
			fail(rc, "a snapshot taken immediately after RestoreAt differs from the restored one: "+d, map[string]any{"snapshot": fmt.Sprint(*s.copy), "receiver": state})
			return false
		}
		if d := mon.StateDiff(s.check.Vars, rc.Store()); d != "" {
			fail(rc, "the variable store after RestoreAt differs from the snapshot: "+d, map[string]any{"snapshot": fmt.Sprint(*s.copy), "receiver": state})
			return false
		}
		return true
	}

	for _, pi := range picks {
		s := saves[pi]
		for _, state := range states {
			if state == "donor-itself" && pi != picks[len(picks)-1] {
				continue // the donor is used as a receiver once, last
			}
			if !c.Thorough() && state != "fresh" && r.Chance(1, 3) {
				continue
			}
			rc := prepare(state)
			if rc == nil {
				if c.Failed() {
					return
				}
				continue
			}
			if !restoreInto(rc, state, s) {
				return
			}
			c.Feature("restore:" + state)
			if !continueFrom(rc, 40, state, s) {
				return
			}
			if s.jumps > 0 && state != "fresh" {
				c.Nontrivial(strings.Join(scripts, "\x00"), fmt.Sprint(choices), fmt.Sprint(s.step), state)
			}
			if !stillIntact("a receiver in state " + state + " moved on after the restore") {
				return
			}
		}
	}

	// ---- alias probe: the same snapshot in two receivers, advanced alternately
	{
		s := saves[picks[r.Intn(len(picks))]]
		a, b := mk(), mk()
		if a == nil || b == nil {
			return
		}
		if !restoreInto(a, "fresh", s) || !restoreInto(b, "fresh", s) {
			return
		}
		ja, jb := a.M.Jumps, b.M.Jumps
		for i := 0; i < 30; i++ {
			rc := a
			if i%2 == 1 {
				rc = b
			}
			if rc.M.Ended || rc.M.Broken {
				continue
			}
			if !continueFrom(rc, 1, "alias-probe", s) {
				return
			}
		}
		c.Feature("alias-probe-two-receivers")
		if a.M.Jumps > ja || b.M.Jumps > jb {
			c.Feature("alias-probe-crossed-jump")
			c.Nontrivial(strings.Join(scripts, "\x00"), fmt.Sprint(choices), fmt.Sprint(s.step), "alias")
		}
		if !stillIntact("two receivers restored from one snapshot moved on") {
			return
		}
	}

	// ---- a snapshot built by hand (as a host decoding a save file would): only the node is given,
	// both maps are nil
	{
		rc := prepare(states[r.Intn(5)])
		if rc == nil {
			if c.Failed() {
				return
			}
		} else {
			node := prog.Nodes[r.Intn(len(prog.Nodes)-1)].Title // not the Limbo node
			hand := &ysgo.Snapshot{CurrentNode: node}
			if err := rc.R.RestoreAt(hand); err != nil {
				fail(rc, "RestoreAt refused a hand-built snapshot naming an existing node: "+err.Error(), nil)
				return
			}
			rc.M.Restore(model.Snapshot{Node: node})
			rc.Trace = append(rc.Trace, "RestoreAt(&Snapshot{CurrentNode: "+node+"}) (nil maps)")
			if !continueFrom(rc, 40, "hand-built-snapshot", save{copy: hand}) {
				return
			}
			c.Feature("restore:hand-built-snapshot-with-nil-maps")
		}
	}

	// ---- unknown node: refused, nothing changes
	{
		rc := prepare(states[r.Intn(5)])
		if rc == nil {
			return
		}
		before := mon.CopySnap(rc.R.DR.Snapshot())
		storeBefore := map[string]model.Val{}
		for k, v := range rc.Store() {
			v := v
			storeBefore[k], _ = mon.ToVal(&v)
		}
		bad := &ysgo.Snapshot{CurrentNode: "NoSuchNode", Variables: map[string]variable.Value{"intruder": *variable.NewNumber(1)}, VisitedNodes: map[string]int{"Start": 99}}
		err := rc.R.RestoreAt(bad)
		if pe, ok := err.(*mon.PanicErr); ok {
			fail(rc, "RestoreAt panicked on a snapshot naming an unknown node", map[string]any{"panic": pe.Text})
			return
		}
		if err == nil {
			fail(rc, "RestoreAt accepted a snapshot naming an unknown node", nil)
			return
		}
		if d := mon.SnapEq(before, rc.R.DR.Snapshot()); d != "" {
			fail(rc, "a refused RestoreAt changed the runner's snapshot: "+d, nil)
			return
		}
		if d := mon.StateDiff(storeBefore, rc.Store()); d != "" {
			fail(rc, "a refused RestoreAt changed the variable store: "+d, nil)
			return
		}
		_, _, _, pending := rc.R.DR.VerifState()
		if pending {
			// the runner was waiting for a command that never completes: a refused restore leaves it waiting
			if o := rc.R.Once(0); o.Kind != mon.KWaiting {
				fail(rc, "a refused RestoreAt made a runner forget the command it was waiting for: Next returned "+o.String(), nil)
				return
			}
			c.Feature("refused-restore-while-waiting-for-command")
		}
		if !pending && !rc.M.Broken {
			if !continueFrom(rc, 10, "after-refused-restore", save{copy: before}) {
				return
			}
		}
		c.Feature("unknown-node-restore-refused")
	}
	if c.WantSample() && len(saves) > 3 && saves[len(saves)-1].jumps > 0 {
		c.Sample(map[string]any{"readers": scripts, "donor_choices": choices, "save_points": len(saves), "restored_save_points": picks, "donor_trace": donor.Trace})
	}
}
