package props

import (
	"fmt"
	"github.com/remieven/ysgo"
	"io"
	"regexp"
	"runtime/debug"
	"strings"
	"time"
	"unicode/utf8"

	"github.com/antlr4-go/antlr/v4"
	"github.com/remieven/ysgo/internal/parser"
	"github.com/remieven/ysgo/verifharness/core"
	"github.com/remieven/ysgo/verifharness/gen"
	"github.com/remieven/ysgo/verifharness/hast"
	"github.com/remieven/ysgo/verifharness/mon"
)

// C05 — loading any input yields a runner or an error; bad syntax is an error.
type c05 struct{}

func init() { core.Register(c05{}) }

func (c05) ID() string { return "C05" }

// EvalFeatures names the counters of judged executions.
func (c05) EvalFeatures() []string { return []string{"inputs", "seeds"} }

func (c05) Cases(tier string) int {
	if tier == "thorough" {
		return 40000
	}
	return 800
}

func (c05) HangIsViolation() bool { return true }

func (c05) ChildTimeout(tier string) time.Duration {
	if tier == "thorough" {
		return 120 * time.Minute
	}
	return 15 * time.Minute
}

var c05Classes = []string{"valid-program", "oversized-token", "edge-character", "token-mutation", "line-deletion", "truncation", "invalid-by-construction", "raw-bytes", "blank-input", "reader-split"}

func (c05) Thresholds(tier string) map[string]int64 {
	th := map[string]int64{
		"inputs":                             30000,
		"accepted":                           3000,
		"rejected":                           10000,
		"oracle:lexer-error":                 3000,
		"oracle:parser-error":                8000,
		"oracle:trailing-input":              3,
		"oracle:mixed-indentation":           300,
		"multi-reader-inputs":                5000,
		"multi-reader-one-invalid-reader":    150,
		"seeds":                              10000,
		"seed:valid":                         2000,
		"seed:invalid":                       2000,
		"seed:invalid-utf8":                  500,
		"seed:empty":                         200,
		"invalid-utf8-inputs":                1500,
		"empty-input":                        100,
		"mutation-still-valid":               1000,
		"label-checks":                       3500,
		"edge-character:invalid":             800,
		"reader:none":                        700,
		"reader:stuttering":                  2000,
		"reader:failing":                     700,
		"reader:fails-after-a-complete-node": 20,
		"edge-character:at-start":            500,
		"edge-character:at-end":              500,
		"by-construction:mixed-indentation-not-deeper": 30,
		"by-construction:content-after-last-node":      300,
	}
	for _, cl := range c05Classes {
		th["class:"+cl] = 1000
	}
	th["class:valid-program"] = 500
	th["class:oversized-token"] = 500
	th["class:valid-multi-reader-program"] = 250
	th["class:multi-reader-one-invalid"] = 250
	return th
}

func (c05) Rule() string {
	return "case = 50 inputs derived from one generated valid program rendered in a PRNG layout: the program itself (must load); a valid program spread over 2-4 readers (must load) and the same readers with one of them made invalid by construction; token-level mutations (delete / duplicate / swap / insert / replace from a dictionary of << >> { } === --- -> <<if <<endif>> <<else>> # \\\\ \" ( , [ space/tab, stray > ...); line deletions; truncations at PRNG byte offsets; mutations that are invalid by construction (unbalanced <<endif>>, {1 +}, missing ===, tab+space indentation of a statement, the last === written with the indentation of the indented statement before it, i.e. inside a block that is still open); raw byte strings with invalid UTF-8, NUL and lone CR; empty and white-space-only inputs; a valid script with one statement that carries an oversized token (a number of 300-700 digits, a fraction of hundreds of digits, a string of 12-70 KiB, a variable name or command word of thousands of characters); a valid script with one stray character (form feed, vertical tab, NEL, NBSP, ideographic space, line separator, BOM, NUL, zero-width space) or a white-space run at its very start or very end, or blank lines followed by an indented first header; each input also cut at PRNG byte offsets into 2-4 readers; per case also: no reader at all (must be an error), the valid program / a mutation / a truncation delivered by a reader that returns 1-7 bytes per call, (0,nil) now and then and the last bytes together with io.EOF (same verdict as the string), and a reader that fails after a PRNG number of bytes - 0, all of them, or right after a complete node - alone and next to a healthy reader (must be an error). Validity oracle: an independent parse in the harness with the grammar's lexer and parser and the harness's own counting error listeners - valid iff no lexer error, no parser error, the parser stopped at end of input, and - judged by the harness itself, not by the lexer - no line that carries a statement is indented with both tabs and blanks; a multi-reader input is valid iff every reader is. The oracle is cross-checked by two labels (generated programs are valid, the by-construction mutations are invalid); a disagreement there is a harness error (inconclusive). Verdict: NewDialogueRunner returns (panics are caught; a call that does not return is caught by the child watchdog and confirmed alone) and err == nil iff the input is valid. Seeds: 20 strings per case over arbitrary bytes, length 0-40: an error iff a character outside [0-9a-z] occurs, never a panic. Non-trivial: a mutation the oracle rejects, a valid program in a non-canonical layout, or a multi-reader split. Distinct by hash of the readers."
}

func (c05) Assumptions() []string {
	return []string{
		"'syntactically valid' is what the repository's own grammar (YarnSpinnerLexer.g4 / YarnSpinnerParser.g4 with the indentation-aware lexer) accepts without reporting an error and with nothing left over; the oracle runs that grammar with its own error listeners, independently of how ysgo wires them",
		"returned runners are not stepped here (running valid scripts is C06's subject; a mutated script may loop without yielding, which no Next can survive)",
	}
}

type countingListener struct {
	*antlr.DefaultErrorListener
	n int
}

func (l *countingListener) SyntaxError(_ antlr.Recognizer, _ interface{}, _, _ int, _ string, _ antlr.RecognitionException) {
	l.n++
}

// oracleValid parses one reader's content independently.
func oracleValid(s string) (valid bool, kind string, pan string) {
	defer func() {
		if p := recover(); p != nil {
			pan = fmt.Sprintf("%v\n%s", p, debug.Stack())
		}
	}()
	lexL, parL := &countingListener{}, &countingListener{}
	lx := parser.NewYarnSpinnerLexer(antlr.NewInputStream(s))
	lx.RemoveErrorListeners()
	lx.AddErrorListener(lexL)
	ts := antlr.NewCommonTokenStream(lx, antlr.LexerDefaultTokenChannel)
	ps := parser.NewYarnSpinnerParser(ts)
	ps.RemoveErrorListeners()
	ps.AddErrorListener(parL)
	ps.Dialogue()
	switch {
	case mixedStatementIndent(s):
		// judged independently of the lexer: a line that carries a statement and whose indentation
		// mixes tabs and blanks makes the script invalid
		return false, "mixed-indentation", ""
	case lexL.n > 0:
		return false, "lexer-error", ""
	case parL.n > 0:
		return false, "parser-error", ""
	case ts.LA(1) != antlr.TokenEOF:
		return false, "trailing-input", ""
	}
	return true, "", ""
}

var nodeEndRe = regexp.MustCompile(`(^|[\r\n])===`)

var eolRe = regexp.MustCompile(`\r\n|\n|\r`)

// mixedStatementIndent reports whether some line after the first one carries something else than a
// comment and is indented with both tabs and blanks. (The first line of an input has no line break
// before it; nothing is said about its leading white space, and generators never mix it.)
func mixedStatementIndent(s string) bool {
	lines := eolRe.Split(s, -1)
	for _, l := range lines[1:] {
		rest := strings.TrimLeft(l, " \t")
		if rest == "" || strings.HasPrefix(rest, "//") {
			continue
		}
		ws := l[:len(l)-len(rest)]
		if strings.Contains(ws, " ") && strings.Contains(ws, "\t") {
			return true
		}
	}
	return false
}

var c05Dict = []string{"<<", ">>", "{", "}", "===", "---", "->", "<<if ", "<<endif>>", "<<else>>", "<<elseif ", "#", "\\", "\"", "(", ")", ",", "[", "]", " ", "\t", ">", "<", "$", "$x", "title:", ":", "\n", "\r", "    ", "//", "set ", "to", "=", "+", "true", "null", "1", "<<jump ", "<<stop>>", "<<declare ", "as", "x"}

var lexemeRe = regexp.MustCompile(`<<|>>|->|===|---|\r\n|[A-Za-z0-9_$]+|[ \t]+|.|\n`)

func mutate(r *core.Rand, s string) string {
	toks := lexemeRe.FindAllString(s, -1)
	if len(toks) == 0 {
		return s
	}
	n := r.Range(1, 3)
	for k := 0; k < n && len(toks) > 0; k++ {
		i := r.Intn(len(toks))
		switch r.Intn(5) {
		case 0:
			toks = append(toks[:i], toks[i+1:]...)
		case 1:
			toks = append(toks[:i+1], toks[i:]...)
		case 2:
			j := r.Intn(len(toks))
			toks[i], toks[j] = toks[j], toks[i]
		case 3:
			toks = append(toks[:i], append([]string{c05Dict[r.Intn(len(c05Dict))]}, toks[i:]...)...)
		default:
			toks[i] = c05Dict[r.Intn(len(c05Dict))]
		}
	}
	return strings.Join(toks, "")
}

func deleteLine(r *core.Rand, s string) string {
	lines := strings.SplitAfter(s, "\n")
	if len(lines) < 2 {
		return s
	}
	i := r.Intn(len(lines))
	return strings.Join(append(lines[:i:i], lines[i+1:]...), "")
}

// invalidByConstruction applies a mutation that cannot leave the script valid.
func invalidByConstruction(r *core.Rand, s string) (string, string) {
	lines := strings.SplitAfter(s, "\n")
	bodyStart := -1
	for i, l := range lines {
		if strings.HasPrefix(l, "---") {
			bodyStart = i
			break
		}
	}
	switch r.Intn(6) {
	case 5:
		// the end of the last node written inside a block that is still open: the line before it is an indented
		// statement and the === gets the same indentation
		if locs := nodeEndRe.FindAllStringIndex(s, -1); len(locs) > 0 && bodyStart >= 0 {
			l := locs[len(locs)-1]
			at := strings.Index(s[l[0]:l[1]], "===") + l[0]
			before := strings.TrimRight(s[:at], "\r\n")
			if k := strings.LastIndexAny(before, "\r\n"); k >= 0 {
				prev := before[k+1:]
				rest := strings.TrimLeft(prev, " \t")
				ws := prev[:len(prev)-len(rest)]
				if ws != "" && rest != "" && !strings.HasPrefix(rest, "//") && !strings.HasPrefix(rest, "<<endif") && !strings.HasPrefix(rest, "<<else") {
					return s[:at] + ws + s[at:], "node-end-inside-an-open-block"
				}
			}
		}
	case 4:
		// something after the last node end
		eol := "\n"
		if strings.Contains(s, "\r\n") {
			eol = "\r\n"
		} else if strings.Contains(s, "\r") && !strings.Contains(s, "\n") {
			eol = "\r"
		}
		if !strings.HasSuffix(s, "\n") && !strings.HasSuffix(s, "\r") {
			s += eol
		}
		return s + r.Pick("x", "<<stop>>", "-> o", "title: B"+eol+"---", "line after the end", "{1}", "---", "=") + r.Pick(eol, ""), "content-after-last-node"
	case 0:
		if bodyStart >= 0 {
			lines = append(lines[:bodyStart+1], append([]string{"<<endif>>\n"}, lines[bodyStart+1:]...)...)
			return strings.Join(lines, ""), "unbalanced-endif"
		}
	case 1:
		if bodyStart >= 0 {
			lines = append(lines[:bodyStart+1], append([]string{"bad {1 +}\n"}, lines[bodyStart+1:]...)...)
			return strings.Join(lines, ""), "dangling-operator"
		}
	case 2:
		// a statement line indented with tab+blank: either a new line right after ---, or an existing
		// line that is indented at least 9 columns deep, re-indented with a mixture that is NOT deeper
		// than before (so that no new block opens)
		var deep []int
		for i, l := range lines {
			rest := strings.TrimLeft(l, " \t")
			ws := l[:len(l)-len(rest)]
			if i > bodyStart && bodyStart >= 0 && rest != "" && !strings.HasPrefix(rest, "//") && !strings.HasPrefix(rest, "\n") && !strings.HasPrefix(rest, "\r") &&
				len(ws)+7*strings.Count(ws, "\t") >= 9 {
				deep = append(deep, i)
			}
		}
		if len(deep) > 0 && r.Bool() {
			i := deep[r.Intn(len(deep))]
			rest := strings.TrimLeft(lines[i], " \t")
			lines[i] = r.Pick(" \t", "\t ") + rest
			return strings.Join(lines, ""), "mixed-indentation-not-deeper"
		}
		if bodyStart >= 0 {
			lines = append(lines[:bodyStart+1], append([]string{" \tmixed indentation\n"}, lines[bodyStart+1:]...)...)
			return strings.Join(lines, ""), "mixed-indentation"
		}
	}
	// remove the last node end (a line that starts with ===, not one inside a comment)
	if locs := nodeEndRe.FindAllStringIndex(s, -1); len(locs) > 0 {
		l := locs[len(locs)-1]
		i := strings.Index(s[l[0]:l[1]], "===") + l[0]
		return s[:i] + s[i+3:], "missing-node-end"
	}
	return s + "<<", "dangling-command-start"
}

func rawBytes(r *core.Rand) string {
	pool := []string{"\xff", "\xfe\xfd", "\x00", "\r", "\n", "title: A\n", "---\n", "===\n", "x", " ", "\t", "é", "\xe3\x81", "->", "<<", ">>", "{", "}", "#", "😀", "\xc3"}
	var b strings.Builder
	for k := r.Range(0, 30); k > 0; k-- {
		b.WriteString(pool[r.Intn(len(pool))])
	}
	return b.String()
}

func splitReaders(r *core.Rand, s string) []string {
	n := r.Range(2, 4)
	cuts := []int{0}
	for i := 1; i < n; i++ {
		cuts = append(cuts, r.Intn(len(s)+1))
	}
	cuts = append(cuts, len(s))
	// sort
	for i := range cuts {
		for j := i + 1; j < len(cuts); j++ {
			if cuts[j] < cuts[i] {
				cuts[i], cuts[j] = cuts[j], cuts[i]
			}
		}
	}
	var out []string
	for i := 0; i+1 < len(cuts); i++ {
		out = append(out, s[cuts[i]:cuts[i+1]])
	}
	return out
}

func (p c05) judge(c *core.Ctx, class string, readers []string, label string) bool {
	c.Feature("inputs")
	c.Feature("class:" + class)
	valid := true
	invalidReaders := 0
	for _, rd := range readers {
		v, kind, pan := oracleValid(rd)
		if pan != "" {
			// the grammar machinery itself panicked under the harness's listeners: the lexer or parser
			// (part of ysgo) cannot handle this input
			c.Violate("the lexer/parser panicked while the validity oracle parsed an input", map[string]any{"readers_quoted": quoteAll(readers), "panic": pan})
			return false
		}
		if !v {
			valid = false
			invalidReaders++
			c.Feature("oracle:" + kind)
		}
		if !utf8.ValidString(rd) {
			c.Feature("invalid-utf8-inputs")
		}
		if rd == "" {
			c.Feature("empty-input")
		}
	}
	if len(readers) > 1 {
		c.Feature("multi-reader-inputs")
		if invalidReaders > 0 && invalidReaders < len(readers) {
			c.Feature("multi-reader-one-invalid-reader")
		}
	}
	if label != "" {
		c.Feature("label-checks")
		if label == "valid" && !valid {
			// the oracle parses with the grammar's own lexer and parser: if it refuses a program that is valid
			// by construction (the same generator and renderer C01 and C08 load thousands of times), either
			// the harness is wrong or the lexer / parser is. NewDialogueRunner decides which.
			_, err, pan := mon.Create(nil, "k3", readers)
			if err != nil || pan != "" {
				c.Violate("a program that is valid by construction is refused (by the lexer/parser under the harness's listeners and by NewDialogueRunner alike)", map[string]any{
					"readers": readers, "readers_quoted": quoteAll(readers), "error": fmt.Sprint(err), "panic": pan})
				return false
			}
		}
		if label == "invalid" && valid {
			// the other way round: the lexer / parser under the harness's listeners accept an input that cannot be
			// valid. If NewDialogueRunner loads it too, the library accepts invalid syntax.
			_, err, pan := mon.Create(nil, "k3", readers)
			if err == nil && pan == "" {
				c.Violate("input that is invalid by construction was loaded without an error (and the lexer/parser under the harness's listeners accept it too)", map[string]any{
					"readers": readers, "readers_quoted": quoteAll(readers)})
				return false
			}
		}
		if label == "valid" && !valid || label == "invalid" && valid {
			c.Inconclusive(fmt.Sprintf("validity oracle and by-construction label disagree (label %s) on %q", label, strings.Join(readers, "|")))
			return false
		}
	}
	rr, err, pan := mon.Create(nil, "k3", readers)
	detail := map[string]any{"readers": readers, "readers_quoted": quoteAll(readers), "class": class, "oracle_says_valid": valid}
	switch {
	case pan != "":
		detail["panic"] = pan
		c.Violate("NewDialogueRunner panicked", detail)
		return false
	case valid && err != nil:
		detail["error"] = err.Error()
		c.Violate("a syntactically valid script was refused", detail)
		return false
	case !valid && err == nil:
		c.Violate("input that is not a syntactically valid script was loaded without an error", detail)
		return false
	case err == nil && rr == nil:
		c.Violate("NewDialogueRunner returned neither a runner nor an error", detail)
		return false
	}
	if err == nil {
		c.Feature("accepted")
	} else {
		c.Feature("rejected")
	}
	if !valid || len(readers) > 1 || class == "valid-program" {
		c.Nontrivial(strings.Join(readers, "\x00|"))
	}
	return true
}

func quoteAll(s []string) []string {
	q := make([]string, len(s))
	for i, x := range s {
		q[i] = fmt.Sprintf("%q", x)
	}
	return q
}

func (p c05) Run(c *core.Ctx) {
	r := c.R
	cfg := gen.DefaultFlow()
	cfg.MaxStmts = 14
	cfg.MaxNodes = 3
	cfg.MaxReaders = 1
	cfg.DupTitles = true // a title defined twice is syntactically fine (the first definition is the node of that name)
	prog := gen.Flow(r, cfg)
	lay := hast.RandomLayout(r.Fork())
	base := hast.Render(prog, lay)[0]
	if !p.judge(c, "valid-program", []string{base}, "valid") {
		return
	}
	// a valid program spread over several readers (every reader is a valid script on its own)
	{
		mcfg := gen.DefaultFlow()
		mcfg.MaxStmts = 18
		mcfg.MaxNodes = 5
		mcfg.MaxReaders = 4
		mcfg.WOptions = 26
		mp := gen.Flow(r, mcfg)
		if mp.Readers > 1 {
			if !p.judge(c, "valid-multi-reader-program", hast.Render(mp, hast.RandomLayout(r.Fork())), "valid") {
				return
			}
			// … and the same readers with one of them made invalid
			rs := hast.Render(mp, hast.RandomLayout(r.Fork()))
			k := r.Intn(len(rs))
			rs[k], _ = invalidByConstruction(r, rs[k])
			if !p.judge(c, "multi-reader-one-invalid", rs, "invalid") {
				return
			}
		}
	}
	for i := 0; i < 50; i++ {
		var in, class, label string
		switch r.PickW(34, 8, 14, 14, 12, 6, 12, 8, 3) {
		case 8:
			// one statement with an oversized token right after the first body delimiter: a number of 300-700
			// digits (beyond the range of a double), a fraction of hundreds of digits, a very long string,
			// variable name or command word
			digits := strings.Repeat(r.Pick("9", "1", "123456789"), r.Range(300, 700))
			long := []string{
				"<<set $huge to " + digits + ">>",
				"L {" + digits + "} x",
				"<<set $tiny to 0." + strings.Repeat("0", r.Range(300, 500)) + "1>>",
				"<<set $text to \"" + strings.Repeat("lorem ", r.Range(2000, 12000)) + "\">>",
				"<<set $" + strings.Repeat("v", r.Range(1000, 6000)) + " to 1>>",
				"<<act " + digits + " " + strings.Repeat("w", 5000) + ">>",
				"<<if " + digits + " > 1>>\n<<endif>>",
			}[r.Intn(7)]
			eol := "\n"
			if strings.Contains(base, "\r\n") {
				eol = "\r\n"
			} else if strings.Contains(base, "\r") {
				eol = "\r"
			}
			in = strings.Replace(base, eol+"---"+eol, eol+"---"+eol+strings.ReplaceAll(long, "\n", eol)+eol, 1)
			class = "oversized-token"
			if in != base {
				c.Feature("oversized-token-planted")
			}
		case 7:
			// one stray character (white space that is not a blank, tab, CR or LF; BOM; NUL) or a white-space
			// run at the very start or the very end of a valid script, or an indented first header after
			// blank lines: nothing may be trimmed away before the input is judged
			ch := r.Pick("\f", "\v", "\u0085", "\u00a0", "\u3000", "\u2028", "\ufeff", "\x00", "\u200b", "\n\n  ", "\n \t", " ", "\t", "\r\n\r\n", "\n\f\n")
			if r.Bool() {
				in = ch + base
				c.Feature("edge-character:at-start")
			} else {
				in = base + ch
				c.Feature("edge-character:at-end")
			}
			class = "edge-character"
			if v, _, _ := oracleValid(in); v {
				c.Feature("edge-character:still-valid")
			} else {
				c.Feature("edge-character:invalid")
			}
		case 0:
			in, class = mutate(r, base), "token-mutation"
		case 1:
			in, class = deleteLine(r, base), "line-deletion"
		case 2:
			in, class = base[:r.Intn(len(base)+1)], "truncation"
		case 3:
			var how string
			in, how = invalidByConstruction(r, base)
			class, label = "invalid-by-construction", "invalid"
			c.Feature("by-construction:" + how)
		case 4:
			in, class = rawBytes(r), "raw-bytes"
		case 5:
			in, class = r.Pick("", " ", "\n", "\t", "  \n\n", "\r\n", " \t \n", "\r"), "blank-input"
		default:
			// a valid program in another layout, split across readers at arbitrary offsets
			in, class = hast.Render(prog, hast.RandomLayout(r.Fork()))[0], "reader-split"
		}
		if class == "token-mutation" || class == "line-deletion" {
			if v, _, _ := oracleValid(in); v {
				c.Feature("mutation-still-valid")
			}
		}
		readers := []string{in}
		if class == "reader-split" || r.Chance(1, 4) {
			readers = splitReaders(r, in)
		}
		if !p.judge(c, class, readers, label) {
			return
		}
		if c.WantSample() && class == "token-mutation" && i > 3 {
			c.Sample(map[string]any{"class": class, "readers_quoted": quoteAll(readers)})
		}
	}
	// ---- how the input arrives: no reader at all, readers that deliver one byte at a time, return (0, nil)
	// now and then, deliver the last bytes together with io.EOF, or fail half-way
	if !p.readerBehaviours(c, base) {
		return
	}
	// ---- seeds
	for i := 0; i < 20; i++ {
		var seed string
		kind := ""
		switch r.Intn(5) {
		case 0:
			var b strings.Builder
			for k := r.Range(1, 40); k > 0; k-- {
				b.WriteByte("0123456789abcdefghijklmnopqrstuvwxyz"[r.Intn(36)])
			}
			seed, kind = b.String(), "valid"
		case 1:
			seed, kind = "", "empty"
		case 2:
			var b strings.Builder
			for k := r.Range(1, 40); k > 0; k-- {
				b.WriteByte(byte(r.Intn(256)))
			}
			seed = b.String()
		case 3:
			seed = r.Pick("Seed", "a b", "a-b", "é", "日本", "A", "z{", "0_0", "abc\n", " abc", "9`", "a/") // just outside the alphabet
		default:
			seed = r.Pick("zzzzzzzzzzzzzzzzzzzzzzzzzzzzzzzzzzzzzzzz", "0", "00000", "a", "9", "z", "0z0z0z0z0z0z0z0z0z0z") // overflow, zeros
			kind = "valid"
		}
		wantErr := false
		for _, ch := range seed {
			if !(ch >= '0' && ch <= '9' || ch >= 'a' && ch <= 'z') {
				wantErr = true
			}
		}
		if !utf8.ValidString(seed) {
			wantErr = true
			c.Feature("seed:invalid-utf8")
		}
		if kind == "" {
			kind = map[bool]string{true: "invalid", false: "valid"}[wantErr]
		}
		c.Feature("seeds")
		c.Feature("seed:" + kind)
		_, err, pan := mon.Create(nil, seed, []string{base})
		if pan != "" {
			c.Violate("NewDialogueRunner panicked on a seed string", map[string]any{"seed_quoted": fmt.Sprintf("%q", seed), "panic": pan})
			return
		}
		if (err != nil) != wantErr {
			c.Violate(fmt.Sprintf("seed %q: error = %v, but an error is expected iff a character outside [0-9a-z] occurs (expected error: %v)", seed, err, wantErr), map[string]any{"seed_quoted": fmt.Sprintf("%q", seed)})
			return
		}
	}
}

type stutterReader struct {
	data []byte
	r    *core.Rand
	fail int // fail with errBoom once this many bytes were delivered (-1: never)
	sent int
}

var errBoom = fmt.Errorf("read error injected by the harness")

func (s *stutterReader) Read(p []byte) (int, error) {
	if s.fail >= 0 && s.sent >= s.fail {
		return 0, errBoom
	}
	if len(s.data) == 0 {
		return 0, io.EOF
	}
	if len(p) == 0 || s.r.Chance(1, 5) {
		return 0, nil
	}
	n := 1 + s.r.Intn(min(len(p), 7))
	if n > len(s.data) {
		n = len(s.data)
	}
	if s.fail >= 0 && s.sent+n > s.fail {
		n = s.fail - s.sent
		if n == 0 {
			return 0, errBoom
		}
	}
	copy(p, s.data[:n])
	s.data = s.data[n:]
	s.sent += n
	if len(s.data) == 0 && s.fail < 0 && s.r.Bool() {
		return n, io.EOF // data and EOF in one call
	}
	return n, nil
}

// readerBehaviours: the verdict on an input does not depend on how its bytes arrive, a read error is an
// error of NewDialogueRunner (the input is not what was loaded), and no reader at all is not a script.
func (p c05) readerBehaviours(c *core.Ctx, valid string) bool {
	r := c.R
	create := func(readers ...io.Reader) (rr *ysgo.DialogueRunner, err error, pan string) {
		defer func() {
			if x := recover(); x != nil {
				pan = fmt.Sprintf("%v\n%s", x, debug.Stack())
			}
		}()
		rr, err = ysgo.NewDialogueRunner(nil, "k3", readers...)
		return
	}
	// no reader
	rr, err, pan := create()
	c.Feature("reader:none")
	if pan != "" || err == nil || rr != nil {
		c.Violate("NewDialogueRunner without any reader must return an error", map[string]any{"panic": pan, "error": fmt.Sprint(err)})
		return false
	}
	inputs := []string{valid, mutate(r, valid), valid[:r.Intn(len(valid)+1)]}
	for _, in := range inputs {
		want, _, _ := oracleValid(in)
		// stuttering delivery
		rr, err, pan = create(&stutterReader{data: []byte(in), r: r.Fork(), fail: -1})
		c.Feature("reader:stuttering")
		if pan != "" || want != (err == nil) || (err == nil) != (rr != nil) {
			c.Violate("the verdict on an input depends on how its bytes are delivered by the reader", map[string]any{"input_quoted": fmt.Sprintf("%q", in), "oracle_says_valid": want, "error": fmt.Sprint(err), "panic": pan})
			return false
		}
	}
	// a read error, at any offset (also exactly at the end of a complete valid script, and at 0)
	at := r.Intn(len(valid) + 1)
	switch r.Intn(4) {
	case 0:
		at = len(valid)
	case 1:
		at = 0
	case 2:
		if k := strings.LastIndex(valid[:at], "===\n"); k >= 0 {
			at = k + 4 // right after a complete node: what was delivered so far is a valid script
			c.Feature("reader:fails-after-a-complete-node")
		}
	}
	rr, err, pan = create(&stutterReader{data: []byte(valid), r: r.Fork(), fail: at})
	c.Feature("reader:failing")
	if pan != "" || err == nil || rr != nil {
		c.Violate("a reader failed while the script was read, but NewDialogueRunner did not return an error", map[string]any{"script": valid, "bytes_delivered_before_the_error": at, "panic": pan})
		return false
	}
	// the failing reader among healthy ones
	rr, err, pan = create(strings.NewReader(valid), &stutterReader{data: []byte(valid), r: r.Fork(), fail: at})
	if pan != "" || err == nil || rr != nil {
		c.Violate("one of two readers failed while it was read, but NewDialogueRunner did not return an error", map[string]any{"script": valid, "bytes_delivered_before_the_error": at, "panic": pan})
		return false
	}
	return true
}
