package props

import (
	"fmt"
	"strings"

	ysgo "github.com/remieven/ysgo"

	"github.com/remieven/ysgo/verifharness/core"
	"github.com/remieven/ysgo/verifharness/gen"
	"github.com/remieven/ysgo/verifharness/hast"
	"github.com/remieven/ysgo/verifharness/model"
	"github.com/remieven/ysgo/verifharness/mon"
)

// C11 — visited / visited_count count completed visits of tracked nodes only.
type c11 struct{}

func init() { core.Register(c11{}) }

func (c11) ID() string { return "C11" }

// EvalFeatures names the counters of judged executions.
func (c11) EvalFeatures() []string { return []string{"paths"} }

func (c11) Cases(tier string) int {
	if tier == "thorough" {
		return 100000
	}
	return 2500
}

func (c11) Thresholds(tier string) map[string]int64 {
	return map[string]int64{
		"program-whose-Start-node-is-not-first":             100,
		"program-with-a-title-defined-twice":                150,
		"jump-self":                                         100,
		"jump-out-of-nested-body":                           200,
		"jump-by-expression":                                200,
		"jump-from-top-level":                               200,
		"jump-leaves-untracked-node":                        200,
		"jump-leaves-tracking-always-node":                  200,
		"path-with-count>=5":                                20,
		"count-observations":                                20000,
		"snapshot-comparisons":                              10000,
		"non-node-name-observed":                            5000,
		"restore-in-mid-run":                                500,
		"restore-between-tracked-and-untracked-node":        100,
		"snapshot-compared-after-failed-jump-or-error":      40,
		"restore-of-hand-built-snapshot-with-chosen-counts": 60,
		"restore-of-hand-built-snapshot-with-nil-counts":    60,
		"other-runner-created-and-driven-meanwhile":         1500,
		"refused-restore-changed-nothing":                   1000,
		"long-loops":                                        150,
		"long-loops-beyond-256-visits":                      60,
		"restore-of-hand-built-snapshot-with-large-counts":  15,
	}
}

func (c11) Rule() string {
	return "case = one generated jump-graph-heavy program (2-6 nodes, self-loops and cycles bounded by a fuel variable, jumps by name and by expression from top level, option bodies and if bodies, every node tracking: never / always / another value (sometimes, Always, Never, empty ...: counted, only exactly 'never' is not) / unmarked at random) in which every node starts with a line printing visited_count(n) and visited(n) for every node and for a name that is no node; driven along enumerated choice paths; 6% of the jumps name a node that does not exist (the failed jump must not count), and now and then an earlier snapshot of the same run is restored into the running dialogue (counts must then be the snapshot's, and the next jump must count the restored node according to ITS tracking header); one restore in three uses a snapshot built by hand instead (any node, the variables of the last checkpoint, visit counts of the host's choosing or a nil map). Now and then another runner over the same script is created and driven while the run is in progress, and a RestoreAt naming an unknown node (with other counts) is attempted: both must change nothing; a snapshot handed to RestoreAt must come back unmodified (entries with count 0 included); a quarter of the hand-built counts sit at the edges of the narrower integer types (127 ... 2^32, 2^53-2). One case in eight also runs a two-node loop of 70-1030 rounds whose every round shows the exact counts (lines and Snapshot). Oracle: the printed values and Snapshot().VisitedNodes after every step equal the model's count of completed jump-exits; observed counts never decrease and change only in steps in which the model jumps. Non-trivial: some node is left >=2 times on the path and (a node is untracked or a jump leaves from a nested body). Distinct by hash of scripts+choices."
}

func (c11) Assumptions() []string {
	return []string{
		"one program in five defines a title twice (the library accepts that): the FIRST definition is the node of that name - for jumps, for the tracking header and for RestoreAt alike - and the second is never entered; only the consistency of that choice is judged",
		"the reference interpreter's jump bookkeeping encodes the property text (count the node being left, never the node entered; tracking: never counts nothing)",
		"counts are observed through script lines ({visited_count(n)}, {visited(n)}) and through Snapshot().VisitedNodes (entries with count 0 are equivalent to absent entries)",
	}
}

// longLoop: two nodes that send the dialogue back and forth a few hundred times; every entry of Start shows the
// counts, which must be exact far beyond the small numbers generated programs reach (a count kept in a narrow
// integer, a table of small counts, a saturating counter).
func (p c11) longLoop(c *core.Ctx) {
	n := []int{130, 260, 300, 520, 70, 1030}[c.R.Intn(6)]
	never := c.R.Chance(1, 4) // Ping is not tracked: its count stays 0 and the loop is driven by Start's count
	hdr, cond := "", "visited_count(\"Ping\")"
	if never {
		hdr, cond = "tracking: never\n", "visited_count(\"Start\") - 1"
	}
	script := fmt.Sprintf("title: Start\n---\ns {visited_count(\"Start\")} {visited_count(\"Ping\")} {visited(\"Ping\")} {visited(\"Start\")}\n<<jump Ping>>\n===\ntitle: Ping\n%s---\n<<if %s < %d>>\n<<jump Start>>\n<<endif>>\ndone {visited_count(\"Start\")} {visited_count(\"Ping\")}\n===\n", hdr, cond, n)
	rr, err, pan := mon.Create(nil, "", []string{script})
	if err != nil || pan != "" {
		c.Violate("the long visit loop failed to load", map[string]any{"readers": []string{script}, "error": fmt.Sprint(err), "panic": pan})
		return
	}
	tf := func(b bool) string {
		if b {
			return "True"
		}
		return "False"
	}
	for k := 0; k <= n; k++ {
		ping := k
		if never {
			ping = 0
		}
		want := fmt.Sprintf("s %d %d %s %s", k, ping, tf(ping > 0), tf(k > 0))
		o := rr.Next(0)
		snap := rr.DR.Snapshot()
		if o.Kind != mon.KLine || o.Text != want || snap.VisitedNodes["Start"] != k || snap.VisitedNodes["Ping"] != ping {
			c.Violate(fmt.Sprintf("visit counts in a loop of %d rounds: round %d should show %q with Snapshot().VisitedNodes Start=%d Ping=%d", n, k, want, k, ping), map[string]any{
				"readers": []string{script}, "round": k, "observed": o.String(), "snapshot_counts": snap.VisitedNodes})
			return
		}
		c.FeatureN("count-observations", 2)
	}
	want := fmt.Sprintf("done %d %d", n+1, map[bool]int{false: n, true: 0}[never])
	if o := rr.Next(0); o.Kind != mon.KLine || o.Text != want {
		c.Violate(fmt.Sprintf("visit counts after a loop of %d rounds: the last line should be %q", n, want), map[string]any{"readers": []string{script}, "observed": o.String()})
		return
	}
	c.MaxOf("max-visit-count", n+1)
	c.Feature("long-loops")
	if n > 256 {
		c.Feature("long-loops-beyond-256-visits")
	}
}

func (p c11) Run(c *core.Ctx) {
	if c.Idx%8 == 3 {
		p.longLoop(c)
		if c.Failed() {
			return
		}
	}
	cfg := gen.DefaultFlow()
	cfg.StartNotFirst = true
	cfg.DupTitles = true
	cfg.EmptyTitle = true
	cfg.VisitLines = true
	cfg.WJump = 16
	cfg.WStop = 1
	cfg.MaxNodes = 6
	cfg.Fuel = c.R.Range(3, 14)
	cfg.Probes = false
	cfg.BadJumps = 6
	if c.Idx%3 == 0 {
		cfg.WOptions, cfg.WIf = 24, 20
	}
	// at least two nodes: visit counts need jumps
	var prog *hast.Program
	for {
		prog = gen.Flow(c.R, cfg)
		if len(prog.Nodes) >= 2 {
			break
		}
	}
	scripts := hast.Render(prog, hast.L0())
	shapeFeatures(c, prog)
	maxPaths := 8
	if c.Thorough() {
		maxPaths = 16
	}
	var prev map[string]int
	type saved struct {
		snap  *ysgo.Snapshot
		check model.Snapshot
	}
	var saves []saved
	restores := 0
	explorePaths(c, "visit counts differ from the number of completed jump-exits", prog, scripts,
		func() PairOpts {
			prev = map[string]int{}
			saves = nil
			restores = 0
			return PairOpts{UseDefaultStore: c.R.Bool()}
		}, maxPaths,
		func(pr *pathRun, want model.Outcome, got mon.Obs) string {
			snap := pr.pair.R.DR.Snapshot()
			c.Feature("snapshot-comparisons")
			m := pr.pair.M
			for k, w := range m.Visits {
				if snap.VisitedNodes[k] != w {
					return fmt.Sprintf("Snapshot().VisitedNodes[%s] = %d, model %d", k, snap.VisitedNodes[k], w)
				}
			}
			for k, g := range snap.VisitedNodes {
				if g != m.Visits[k] {
					return fmt.Sprintf("Snapshot().VisitedNodes[%s] = %d, model %d", k, g, m.Visits[k])
				}
				if g < prev[k] {
					return fmt.Sprintf("count of %s decreased from %d to %d", k, prev[k], g)
				}
			}
			prev = map[string]int{}
			for k, g := range snap.VisitedNodes {
				prev[k] = g
			}
			if want.Kind == model.OErr {
				c.Feature("snapshot-compared-after-failed-jump-or-error")
				return ""
			}
			// counts belong to one runner: another runner over the same script, created and driven while
			// this one is alive, changes nothing here (the following observations would show it)
			if c.R.Chance(1, 10) {
				if other, err, pan := mon.Create(nil, "", scripts); err == nil && pan == "" {
					for k := c.R.Intn(6); k > 0; k-- {
						other.Next(0)
					}
					c.Feature("other-runner-created-and-driven-meanwhile")
				}
			}
			// a RestoreAt that is refused (unknown node) changes nothing either
			if c.R.Chance(1, 12) {
				bad := &ysgo.Snapshot{CurrentNode: "NoSuchNode", VisitedNodes: map[string]int{"NoSuchNode": 3}}
				for _, n := range prog.Nodes {
					bad.VisitedNodes[n.Title] = 7
				}
				if err := pr.pair.R.RestoreAt(bad); err == nil {
					return "RestoreAt accepted a snapshot naming an unknown node"
				} else if pe, ok := err.(*mon.PanicErr); ok {
					return "RestoreAt panicked on a snapshot naming an unknown node: " + pe.Text
				}
				after := pr.pair.R.DR.Snapshot()
				for k, w := range m.Visits {
					if after.VisitedNodes[k] != w {
						return fmt.Sprintf("a refused RestoreAt changed the count of %s to %d (model %d)", k, after.VisitedNodes[k], w)
					}
				}
				for k, g := range after.VisitedNodes {
					if g != m.Visits[k] {
						return fmt.Sprintf("a refused RestoreAt changed the count of %s to %d (model %d)", k, g, m.Visits[k])
					}
				}
				c.Feature("refused-restore-changed-nothing")
			}
			// counts are "unaffected by anything but jumps and restores": now and then keep a
			// snapshot, and later restore one into the running dialogue (both sides)
			if c.R.Chance(1, 6) && len(saves) < 4 {
				saves = append(saves, saved{snap: snap, check: m.Check.Clone()})
			}
			if len(saves) > 0 && restores < 3 && (want.Kind == model.OLine || want.Kind == model.OOptions) && c.R.Chance(1, 8) {
				sv := saves[c.R.Intn(len(saves))]
				from := m.Cur
				if c.R.Chance(1, 3) {
					// a snapshot the host built by hand (a decoded save file): the variables of the last
					// checkpoint, any node, and visit counts of the host's choosing - or none at all (nil map)
					node := prog.Nodes[c.R.Intn(len(prog.Nodes))].Title
					hand := &ysgo.Snapshot{CurrentNode: node, Variables: mon.CopySnap(snap).Variables}
					check := m.Check.Clone()
					check.Node = node
					check.Visits = map[string]int{}
					if c.R.Bool() {
						hand.VisitedNodes = map[string]int{}
						for _, n := range prog.Nodes {
							if c.R.Bool() {
								k := c.R.Intn(4)
								if c.R.Chance(1, 4) {
									// a long save game: counts at the edges of the narrower integer types
									k = []int{127, 128, 255, 256, 32767, 32768, 65535, 65536, 1 << 24, 1<<24 + 1, 1<<31 - 1, 1 << 31, 1<<32 - 1, 1 << 32, 1<<53 - 2}[c.R.Intn(15)]
									c.Feature("restore-of-hand-built-snapshot-with-large-counts")
								}
								hand.VisitedNodes[n.Title] = k
								check.Visits[n.Title] = k
							}
						}
						c.Feature("restore-of-hand-built-snapshot-with-chosen-counts")
					} else {
						c.Feature("restore-of-hand-built-snapshot-with-nil-counts")
					}
					sv = saved{snap: hand, check: check}
				}
				handedOver := mon.CopySnap(sv.snap)
				if err := pr.pair.R.RestoreAt(sv.snap); err != nil {
					return "RestoreAt of the runner's own earlier snapshot failed: " + err.Error()
				}
				// the snapshot is the host's value: restoring from it does not change it (zero counts included)
				if len(handedOver.VisitedNodes) != len(sv.snap.VisitedNodes) {
					return fmt.Sprintf("RestoreAt modified the snapshot it was given: VisitedNodes had %d entries, now %d", len(handedOver.VisitedNodes), len(sv.snap.VisitedNodes))
				}
				if d := mon.SnapEq(handedOver, sv.snap); d != "" {
					return "RestoreAt modified the snapshot it was given: " + d
				}
				m.Restore(sv.check)
				restores++
				pr.pair.Trace = append(pr.pair.Trace, fmt.Sprintf("RestoreAt(earlier snapshot of node %s) while in node %s", sv.check.Node, from))
				c.Feature("restore-in-mid-run")
				if fn, tn := prog.Find(from), prog.Find(sv.check.Node); fn != nil && tn != nil && (fn.Tracking() == "never") != (tn.Tracking() == "never") {
					c.Feature("restore-between-tracked-and-untracked-node")
				}
				prev = map[string]int{}
				return ""
			}
			if want.Kind == model.OLine && strings.HasPrefix(want.Text, "V") {
				c.FeatureN("count-observations", len(prog.Nodes))
				c.Feature("non-node-name-observed")
			}
			return ""
		},
		func(pr *pathRun) {
			m := pr.pair.M
			c.MaxOf("max-visit-count", m.MaxVisits)
			if m.MaxVisits >= 5 {
				c.Feature("path-with-count>=5")
			}
			if m.MaxVisits >= 2 && (m.Stats["jump-leaves-untracked-node"] > 0 || m.Stats["jump-out-of-nested-body"] > 0) {
				c.Nontrivial(strings.Join(scripts, "\x00"), fmt.Sprint(pr.choices))
			}
			if c.WantSample() && m.MaxVisits >= 3 {
				c.Sample(map[string]any{"readers": scripts, "choices": pr.choices, "trace": pr.pair.Trace})
			}
		})
}
