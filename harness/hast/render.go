package hast

import (
	"strings"

	"github.com/remieven/ysgo/verifharness/core"
)

// Layout fixes everything about the written form of a program that is not part of
// its meaning.
type Layout struct {
	Unit        string // indentation unit: 1-8 blanks or 1+ tabs
	IndentIf    bool   // if-clause bodies are indented one unit
	EOL         string // "\n", "\r\n" or "\r"
	Paren       int    // 0 minimal parentheses, 1 fully parenthesised, 2 minimal + redundant ones
	Spell       bool   // pick operator spellings per occurrence
	Blanks      bool   // extra blanks inside << >>, { } and around operators
	Filler      int    // percent chance, per insertion point, of blank / white-space-only / comment lines
	Trailing    int    // percent chance of a trailing comment where one is allowed
	NoFinalEOL  bool   // the last line of a reader has no line end
	PerLineTabs bool   // every line picks, on its own, tabs or 8 blanks per level (same columns: a tab is 8 columns)
	MixedBlank  bool   // white-space-only lines and the indentation of comment-only lines may mix tabs and blanks
	// PartialDedent: <<elseif>>, <<else>> and <<endif>> that follow a non-empty indented body are written at a
	// column strictly between the body's column and the column of their <<if>> (sloppy but legal alignment)
	PartialDedent bool
	R             *core.Rand
	Stats         map[string]int // what was actually rendered (for evidence)
}

// L0 is the canonical layout.
func L0() *Layout {
	return &Layout{Unit: "    ", IndentIf: true, EOL: "\n"}
}

// RandomLayout draws a layout.
func RandomLayout(r *core.Rand) *Layout {
	l := &Layout{R: r, Stats: map[string]int{}}
	if r.Chance(1, 4) {
		l.Unit = strings.Repeat("\t", r.Range(1, 2))
	} else {
		l.Unit = strings.Repeat(" ", r.Range(1, 8))
	}
	l.IndentIf = r.Bool()
	l.EOL = []string{"\n", "\n", "\r\n", "\r"}[r.Intn(4)]
	l.Paren = r.Intn(3)
	l.Spell = r.Bool()
	l.Blanks = r.Bool()
	l.Filler = []int{0, 15, 40, 70}[r.Intn(4)]
	l.Trailing = []int{0, 20, 60}[r.Intn(3)]
	l.NoFinalEOL = r.Chance(1, 3)
	if r.Chance(1, 6) {
		l.Unit = "        "
		l.PerLineTabs = true
	}
	l.MixedBlank = r.Chance(1, 3)
	if l.IndentIf && !l.PerLineTabs && !strings.Contains(l.Unit, "\t") && len(l.Unit) >= 2 {
		l.PartialDedent = r.Chance(1, 3)
	}
	return l
}

// Dims names the dimensions in which l differs from L0.
func (l *Layout) Dims() []string {
	var d []string
	if l.Unit != "    " {
		if strings.Contains(l.Unit, "\t") {
			d = append(d, "tabs")
		} else {
			d = append(d, "indent-width")
		}
	}
	if !l.IndentIf {
		d = append(d, "if-body-flat")
	}
	if l.EOL == "\r\n" {
		d = append(d, "crlf")
	} else if l.EOL == "\r" {
		d = append(d, "cr")
	}
	if l.Paren == 1 {
		d = append(d, "full-parens")
	} else if l.Paren == 2 {
		d = append(d, "redundant-parens")
	}
	if l.Spell {
		d = append(d, "spellings")
	}
	if l.Blanks {
		d = append(d, "extra-blanks")
	}
	if l.Filler > 0 {
		d = append(d, "filler-lines")
	}
	if l.Trailing > 0 {
		d = append(d, "trailing-comments")
	}
	if l.NoFinalEOL {
		d = append(d, "no-final-eol")
	}
	if l.PerLineTabs {
		d = append(d, "tabs-and-blanks-per-line")
	}
	if l.MixedBlank && l.Filler > 0 {
		d = append(d, "mixed-whitespace-on-blank-lines")
	}
	if l.PartialDedent {
		d = append(d, "partial-dedent")
	}
	return d
}

func (l *Layout) stat(k string) {
	if l.Stats != nil {
		l.Stats[k]++
	}
}

func (l *Layout) chance(pct int) bool { return l.R != nil && pct > 0 && l.R.Intn(100) < pct }

func (l *Layout) sp() string {
	if l.Blanks && l.R != nil {
		return strings.Repeat(" ", l.R.Range(1, 3))
	}
	return " "
}

// osp is an optional blank (none in the canonical layout).
func (l *Layout) osp() string {
	if l.Blanks && l.R != nil {
		return strings.Repeat(" ", l.R.Intn(3))
	}
	return ""
}

func (l *Layout) spell(op string) string {
	s := Spellings[op]
	if l.Spell && l.R != nil && len(s) > 1 {
		c := s[l.R.Intn(len(s))]
		if c != s[0] {
			l.stat("spelling:" + c)
		}
		return c
	}
	return s[0]
}

// ---------------------------------------------------------------- expressions

func quote(s string) string { return `"` + s + `"` }

func (l *Layout) wrap(s string) string { return "(" + l.osp() + s + l.osp() + ")" }

// Expr prints e.
func (l *Layout) Expr(e *Expr) string {
	s := l.expr(e)
	if l.Paren == 2 && l.chance(15) {
		l.stat("redundant-paren")
		return l.wrap(s)
	}
	return s
}

func (l *Layout) child(e *Expr, need bool) string {
	s := l.expr(e)
	leaf := e.K != EBin && e.K != ENeg && e.K != ENot
	switch {
	case need:
		return l.wrap(s)
	case l.Paren == 1 && !leaf:
		l.stat("full-paren")
		return l.wrap(s)
	case l.Paren == 2 && l.chance(20):
		l.stat("redundant-paren")
		return l.wrap(s)
	}
	return s
}

func (l *Layout) expr(e *Expr) string {
	switch e.K {
	case ENum:
		return e.Text
	case EBool:
		if e.B {
			return "true"
		}
		return "false"
	case EStr:
		return quote(e.Text)
	case EVar:
		return "$" + e.Text
	case ENull:
		return "null"
	case ECall:
		var b strings.Builder
		b.WriteString(e.Text)
		b.WriteString("(")
		b.WriteString(l.osp())
		for i, a := range e.Args {
			if i > 0 {
				b.WriteString(l.osp() + "," + l.osp())
				if !l.Blanks {
					b.WriteString(" ")
				}
			}
			b.WriteString(l.Expr(a))
		}
		b.WriteString(l.osp())
		b.WriteString(")")
		return b.String()
	case ENeg:
		c := l.child(e.Args[0], e.Args[0].K == EBin)
		return "-" + l.osp() + c
	case ENot:
		c := l.child(e.Args[0], e.Args[0].K == EBin)
		sp := l.spell("not")
		if sp == "not" {
			return "not " + l.osp() + c
		}
		return "!" + l.osp() + c
	case EBin:
		p := Prec(e.Text)
		a, b := e.Args[0], e.Args[1]
		needL := a.K == EBin && Prec(a.Text) < p
		needR := b.K == EBin && Prec(b.Text) <= p
		if a.K == EBin && !needL && Prec(a.Text) != p || b.K == EBin && !needR {
			l.stat("precedence-decides")
		}
		return l.child(a, needL) + l.sp() + l.spell(e.Text) + l.sp() + l.child(b, needR)
	}
	return "?"
}

// ---------------------------------------------------------------- statements

type out struct {
	l     *Layout
	lines []string
}

func (o *out) indent(depth int) string {
	if o.l.PerLineTabs && o.l.R != nil && o.l.R.Bool() {
		return strings.Repeat("\t", depth)
	}
	return strings.Repeat(o.l.Unit, depth)
}

// blankIndent is the white space of a filler line: it carries no statement, so it may even mix tabs and blanks.
func (o *out) blankIndent(depth int) string {
	if o.l.MixedBlank && o.l.R != nil && o.l.R.Chance(1, 2) {
		o.l.stat("filler:mixed-tab-blank-whitespace")
		return o.l.R.Pick(" \t", "\t ", "  \t  ", "\t\t ", " \t \t")
	}
	return o.indent(depth)
}

func (o *out) emit(depth int, s string) { o.lines = append(o.lines, o.indent(depth)+s) }

var commentTexts = []string{"c", " a comment", "<<endif>>", " -> not an option", "===", " #nottag {x}", " [b]x[/b]", "---", " title: Z", "<<stop>>", ""}

func (o *out) comment() string {
	return "//" + commentTexts[o.l.R.Intn(len(commentTexts))]
}

// filler possibly inserts blank, white-space-only or comment lines at an insertion
// point whose surrounding statements are at the given depth.
func (o *out) filler(depth int, pos string) {
	l := o.l
	if !l.chance(l.Filler) {
		return
	}
	n := l.R.Range(1, 3)
	for i := 0; i < n; i++ {
		kind := l.R.Intn(3)
		var d int
		var where string
		switch l.R.Intn(4) {
		case 0:
			d, where = 0, "col0"
		case 1:
			d, where = depth, "same"
		case 2:
			d, where = depth+l.R.Range(1, 3), "deeper"
		default:
			d, where = 0, "col0"
			if depth > 0 {
				d, where = l.R.Intn(depth), "shallower"
				if d == 0 {
					where = "col0"
				}
			}
		}
		switch kind {
		case 0:
			o.lines = append(o.lines, "")
			l.stat("filler:blank@" + pos)
		case 1:
			if d == 0 {
				d = 1
				where = "deeper"
				if depth > 1 {
					where = "shallower"
				} else if depth == 1 {
					where = "same"
				}
			}
			o.lines = append(o.lines, o.blankIndent(d))
			l.stat("filler:ws-only-" + where + "@" + pos)
		default:
			o.lines = append(o.lines, o.blankIndent(d)+o.comment())
			l.stat("filler:comment-" + where + "@" + pos)
		}
	}
}

// trail possibly appends a trailing comment. glue says the comment must directly
// follow the text (no blank before it).
func (o *out) trail(s string, glue bool, kind string) string {
	l := o.l
	if !l.chance(l.Trailing) {
		return s
	}
	l.stat("trailing-comment:" + kind)
	if glue {
		if strings.HasSuffix(s, "/") {
			return s // "x/" + "//c" would be read as "x" + "///c"
		}
		return s + o.comment()
	}
	return s + l.sp() + o.comment()
}

func (l *Layout) lineText(parts []Part) string {
	var b strings.Builder
	for _, p := range parts {
		if p.X != nil {
			b.WriteString("{" + l.osp() + l.Expr(p.X) + l.osp() + "}")
		} else {
			b.WriteString(p.Src)
		}
	}
	return b.String()
}

func (o *out) line(parts []Part, cond *Expr, tags []string) string {
	l := o.l
	s := l.lineText(parts)
	kind := "after-text"
	if cond != nil {
		s += " <<" + l.osp() + "if " + l.osp() + l.Expr(cond) + l.osp() + ">>"
		kind = "after-condition"
	}
	for i, t := range tags {
		if i == 0 && cond == nil {
			// the blanks between the text and the first tag belong to the text token:
			// they are content, not layout
			s += " #" + t
		} else {
			s += l.sp() + "#" + t
		}
		kind = "after-tag"
	}
	return o.trail(s, kind == "after-text", kind)
}

func (o *out) body(body []*Stmt, depth int) {
	for i, s := range body {
		pos := "between-stmts"
		if i == 0 {
			pos = "body-first"
		}
		o.filler(depth, pos)
		o.stmt(s, depth)
	}
}

func (o *out) cmd(depth int, inner string) {
	l := o.l
	o.emit(depth, o.trail("<<"+l.osp()+inner+l.osp()+">>", false, "after-command"))
}

func (o *out) stmt(s *Stmt, depth int) {
	if s.ExprLay != nil {
		saved := o.l
		merged := *o.l
		merged.Paren, merged.Spell, merged.Blanks, merged.R = s.ExprLay.Paren, s.ExprLay.Spell, s.ExprLay.Blanks, s.ExprLay.R
		if merged.Stats == nil {
			merged.Stats = s.ExprLay.Stats
		}
		o.l = &merged
		defer func() { o.l = saved }()
	}
	l := o.l
	switch s.K {
	case SLine:
		o.emit(depth, o.line(s.Parts, s.Cond, s.Tags))
	case SOptions:
		for i, op := range s.Options {
			if i > 0 {
				o.filler(depth, "between-options")
			}
			o.emit(depth, "->"+l.sp()+o.line(op.Parts, op.Cond, op.Tags))
			if len(op.Body) > 0 {
				o.filler(depth+1, "option-line/body")
				o.body(op.Body, depth+1)
			}
		}
	case SIf:
		bd := depth
		if l.IndentIf {
			bd = depth + 1
		}
		// sloppy marks the next closing line (elseif / else / endif) for a partial dedent; only after a
		// non-empty body, so that the line before it is deeper
		sloppy := func(prev *Clause) func() {
			if !l.PartialDedent || prev == nil || len(prev.Body) == 0 || l.R == nil || !l.R.Bool() {
				return func() {}
			}
			extra := strings.Repeat(" ", l.R.Range(1, len(l.Unit)-1))
			at := len(o.lines)
			return func() {
				// the closing line is the last line emitted since `at` (fillers come before it)
				if n := len(o.lines); n > at {
					o.lines[n-1] = extra + o.lines[n-1]
					l.stat("partial-dedent-closing-lines")
				}
			}
		}
		for i, c := range s.Clauses {
			var prev *Clause
			if i > 0 {
				prev = s.Clauses[i-1]
			}
			switch {
			case i == 0:
				o.cmd(depth, "if "+l.osp()+l.Expr(c.Cond))
			case c.Cond != nil:
				o.filler(depth, "before-elseif")
				fix := sloppy(prev)
				o.cmd(depth, "elseif "+l.osp()+l.Expr(c.Cond))
				fix()
			default:
				o.filler(depth, "before-else")
				fix := sloppy(prev)
				o.cmd(depth, "else")
				fix()
			}
			o.body(c.Body, bd)
		}
		o.filler(depth, "before-endif")
		fix := sloppy(s.Clauses[len(s.Clauses)-1])
		o.cmd(depth, "endif")
		fix()
	case SSet:
		op := s.Op
		if op == "=" {
			op = l.spell("=")
		}
		o.cmd(depth, "set "+l.osp()+"$"+s.Var+l.sp()+op+l.sp()+l.Expr(s.X))
	case SDeclare:
		t := ""
		if s.AsType != "" {
			t = l.sp() + "as" + l.sp() + s.AsType
		}
		o.cmd(depth, "declare "+l.osp()+"$"+s.Var+l.sp()+l.spell("=")+l.sp()+l.expr(s.X)+t)
	case SJump:
		if s.X != nil {
			// exactly one blank after "jump": more is a known lexer-grammar finding (K2)
			o.cmd(depth, "jump {"+l.osp()+l.Expr(s.X)+l.osp()+"}")
		} else {
			o.cmd(depth, "jump "+s.Target)
		}
	case SStop:
		o.emit(depth, o.trail("<<stop>>", false, "after-command"))
	case SCall:
		o.cmd(depth, "call "+l.osp()+l.expr(s.X))
	case SCommand:
		var b strings.Builder
		b.WriteString(s.Name)
		for i, a := range s.Args {
			sep := l.sp()
			if s.Sep != nil {
				sep = s.Sep[i]
			}
			b.WriteString(sep)
			if a.X != nil {
				b.WriteString("{" + l.osp() + l.Expr(a.X) + l.osp() + "}")
			} else {
				b.WriteString(a.Word)
			}
		}
		tailSep := ""
		if s.Sep != nil {
			tailSep = s.Sep[len(s.Args)]
		}
		o.emit(depth, o.trail("<<"+b.String()+tailSep+">>", false, "after-command"))
	}
}

func (o *out) node(n *Node) {
	o.emit(0, "title: "+n.Title)
	for _, h := range n.Headers {
		o.filler(0, "between-headers")
		if h[1] == "" {
			o.emit(0, h[0]+":")
		} else {
			o.emit(0, h[0]+": "+h[1])
		}
	}
	o.filler(0, "between-headers")
	o.emit(0, "---")
	o.body(n.Body, 0)
	o.filler(0, "node-last")
	o.emit(0, "===")
}

// Render writes the program as one script text per reader.
func Render(p *Program, l *Layout) []string {
	readers := p.Readers
	if readers < 1 {
		readers = 1
	}
	res := make([]string, readers)
	for r := 0; r < readers; r++ {
		o := &out{l: l}
		first := true
		for _, n := range p.Nodes {
			if n.Reader != r {
				continue
			}
			if first {
				o.filler(0, "before-first-node")
				first = false
			} else {
				o.filler(0, "between-nodes")
			}
			o.node(n)
		}
		o.filler(0, "after-last-node")
		s := strings.Join(o.lines, l.EOL)
		if !l.NoFinalEOL {
			s += l.EOL
		}
		res[r] = s
	}
	return res
}
