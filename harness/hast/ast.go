// Package hast is the harness's own AST of the Yarn core language. Programs are
// generated in this form, rendered to script text under a layout, and interpreted
// by the reference model. It shares no code and no types with ysgo's tree package.
package hast

// Ty is a Yarn value type.
type Ty int

const (
	TNum Ty = iota
	TBool
	TStr
	TNone // used for "no value" (function returning nothing, null)
)

func (t Ty) String() string { return [...]string{"number", "boolean", "string", "none"}[t] }

// EK is an expression kind.
type EK int

const (
	ENum EK = iota // Text = literal as printed (INT or INT.INT)
	EBool
	EStr  // Text = content (no quotes; never contains " \ CR LF)
	EVar  // Text = name without $
	ECall // Text = function name, Args
	ENeg  // Args[0]
	ENot  // Args[0]
	EBin  // Text = canonical operator, Args[0], Args[1]
	ENull
)

type Expr struct {
	K    EK
	Text string
	B    bool
	Args []*Expr
}

func Num(text string) *Expr           { return &Expr{K: ENum, Text: text} }
func Bool(b bool) *Expr               { return &Expr{K: EBool, B: b} }
func Str(s string) *Expr              { return &Expr{K: EStr, Text: s} }
func Var(name string) *Expr           { return &Expr{K: EVar, Text: name} }
func Call(f string, a ...*Expr) *Expr { return &Expr{K: ECall, Text: f, Args: a} }
func Neg(e *Expr) *Expr               { return &Expr{K: ENeg, Args: []*Expr{e}} }
func Not(e *Expr) *Expr               { return &Expr{K: ENot, Args: []*Expr{e}} }
func Bin(op string, l, r *Expr) *Expr { return &Expr{K: EBin, Text: op, Args: []*Expr{l, r}} }
func Null() *Expr                     { return &Expr{K: ENull} }

// Prec is the grammar's precedence level of an operator (higher binds tighter).
func Prec(op string) int {
	switch op {
	case "*", "/", "%":
		return 6
	case "+", "-":
		return 5
	case "<", "<=", ">", ">=":
		return 4
	case "==", "!=":
		return 3
	case "and", "or", "xor":
		return 2
	}
	return 0
}

const PrecUnary = 7

// BinOps lists the canonical binary operators.
var BinOps = []string{"*", "/", "%", "+", "-", "<=", ">=", "<", ">", "==", "!=", "and", "or", "xor"}

// Spellings lists every spelling the lexer accepts for an operator.
var Spellings = map[string][]string{
	"*": {"*"}, "/": {"/"}, "%": {"%"}, "+": {"+"}, "-": {"-"},
	"<=": {"<=", "lte"}, ">=": {">=", "gte"}, "<": {"<", "lt"}, ">": {">", "gt"},
	"==": {"==", "is", "eq"}, "!=": {"!=", "neq"},
	"and": {"and", "&&"}, "or": {"or", "||"}, "xor": {"xor", "^"},
	"not": {"not", "!"},
	"=":   {"to", "="},
}

// Part is one piece of a line's text: either literal text (Src is what is written
// in the script, Out what must come out) or an inline expression.
type Part struct {
	Src string
	Out string
	X   *Expr
}

func Lit(s string) Part { return Part{Src: s, Out: s} }
func Inl(e *Expr) Part  { return Part{X: e} }

type SK int

const (
	SLine SK = iota
	SOptions
	SIf
	SSet
	SDeclare
	SJump
	SStop
	SCall
	SCommand
)

// CmdArg is one argument of a generic command: a bare word or an {expression}.
type CmdArg struct {
	Word string
	X    *Expr
}

type Option struct {
	Parts []Part
	Cond  *Expr
	Tags  []string
	Body  []*Stmt
}

type Clause struct {
	Cond *Expr // nil for else
	Body []*Stmt
}

type Stmt struct {
	K SK
	// SLine
	Parts []Part
	Tags  []string
	Cond  *Expr // line condition on a plain line (not used by the model: avoided)
	// SOptions
	Options []*Option
	// SIf
	Clauses []*Clause
	// SSet / SDeclare
	Var    string
	Op     string // "=", "+=", "-=", "*=", "/=", "%="
	X      *Expr
	AsType string // declare … as <type>
	// SJump
	Target string // by name when X == nil
	// SCall: X is an ECall
	// SCommand
	Name string
	Args []CmdArg
	// Sep, when set, lists the separators to print before each argument and before ">>"
	// (len(Args)+1 entries); default is a single blank.
	Sep []string
	ID  int // unique statement id (for evidence / debugging)
	// MarkupFault marks a line whose literal text is malformed markup: showing it must fail.
	MarkupFault bool
	// ExprLay, when set, overrides how the expressions of this statement are printed
	// (parenthesisation, spellings, blanks); everything else follows the file's layout.
	ExprLay *Layout
}

type Node struct {
	Title   string
	Headers [][2]string // extra headers in order (key, value); title is always first
	Body    []*Stmt
	Reader  int // index of the reader this node is written to
}

// Tracking returns the value of the tracking header ("" when absent).
func (n *Node) Tracking() string {
	v := ""
	for _, h := range n.Headers {
		if h[0] == "tracking" {
			v = h[1] // the last one wins, as for a map
		}
	}
	return v
}

type Program struct {
	Nodes   []*Node
	Readers int
}

func (p *Program) Find(title string) *Node {
	for _, n := range p.Nodes {
		if n.Title == title {
			return n
		}
	}
	return nil
}

// Walk calls f for every statement, depth-first, with its nesting depth (number
// of enclosing option bodies and if bodies).
func Walk(body []*Stmt, depth int, f func(s *Stmt, depth int)) {
	for _, s := range body {
		f(s, depth)
		switch s.K {
		case SOptions:
			for _, o := range s.Options {
				Walk(o.Body, depth+1, f)
			}
		case SIf:
			for _, c := range s.Clauses {
				Walk(c.Body, depth+1, f)
			}
		}
	}
}
