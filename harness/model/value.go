// Package model is the reference interpreter: a deliberately naive reading of the
// property texts over the harness AST. It does not import ysgo.
package model

import (
	"math"
	"strconv"

	"github.com/remieven/ysgo/verifharness/hast"
)

// Val is a Yarn value.
type Val struct {
	T hast.Ty
	N float64
	B bool
	S string
}

func N(f float64) Val { return Val{T: hast.TNum, N: f} }
func B(b bool) Val    { return Val{T: hast.TBool, B: b} }
func S(s string) Val  { return Val{T: hast.TStr, S: s} }

var None = Val{T: hast.TNone}

// Same is value equality where every NaN equals every NaN and -0 differs from +0
// only when strict is set.
func Same(a, b Val, strictZero bool) bool {
	if a.T != b.T {
		return false
	}
	switch a.T {
	case hast.TNum:
		if math.IsNaN(a.N) || math.IsNaN(b.N) {
			return math.IsNaN(a.N) && math.IsNaN(b.N)
		}
		if strictZero {
			return math.Float64bits(a.N) == math.Float64bits(b.N)
		}
		return a.N == b.N
	case hast.TBool:
		return a.B == b.B
	case hast.TStr:
		return a.S == b.S
	}
	return true
}

func (v Val) String() string {
	switch v.T {
	case hast.TNum:
		return "n:" + strconv.FormatFloat(v.N, 'g', -1, 64)
	case hast.TBool:
		return "b:" + strconv.FormatBool(v.B)
	case hast.TStr:
		return "s:" + strconv.Quote(v.S)
	}
	return "none"
}

// Display is the display form of a value as the property C04 states it: integral
// numbers without a decimal point, other numbers in shortest round-trip decimal,
// booleans as True/False, strings verbatim. plain is false when the number is
// outside the zone in which every shortest round-trip rendering is the same string
// (exponent notation, NaN, infinities, integers beyond 2^53): callers then do not
// compare text literally.
func Display(v Val) (s string, plain bool) {
	switch v.T {
	case hast.TBool:
		if v.B {
			return "True", true
		}
		return "False", true
	case hast.TStr:
		return v.S, true
	case hast.TNum:
		x := v.N
		if math.IsNaN(x) || math.IsInf(x, 0) {
			return strconv.FormatFloat(x, 'g', -1, 64), false
		}
		if x == math.Trunc(x) {
			if math.Abs(x) < 1<<53 {
				return strconv.FormatInt(int64(x), 10), true
			}
			return strconv.FormatFloat(x, 'f', -1, 64), false
		}
		a := math.Abs(x)
		// every shortest-round-trip convention prints these positionally (Go's %v
		// switches to exponent notation at 1e6 for non-integral values, others later)
		if a >= 1e-4 && a < 1e6 {
			return strconv.FormatFloat(x, 'f', -1, 64), true
		}
		return strconv.FormatFloat(x, 'g', -1, 64), false
	}
	return "", false
}

// CheckNumberText decides whether text is an acceptable display form of the number
// x in the sense of C04, whatever the notation: an integral value below 2^53 must
// be printed as plain digits; any other finite value must parse back to x and
// carry exactly the digits of the shortest round-trip representation.
func CheckNumberText(x float64, text string) bool {
	if math.IsNaN(x) || math.IsInf(x, 0) {
		return true // not covered by the property
	}
	if x == math.Trunc(x) && math.Abs(x) < 1<<53 {
		want := strconv.FormatInt(int64(x), 10)
		return text == want
	}
	back, err := strconv.ParseFloat(text, 64)
	if err != nil || back != x {
		return false
	}
	if x == math.Trunc(x) && isPlainInteger(text) {
		return true // an integral value of large magnitude written out in full
	}
	return digitsOf(text) == digitsOf(strconv.FormatFloat(x, 'e', -1, 64))
}

// digitsOf returns the significant digits of a decimal numeral (sign, point,
// exponent, leading and trailing zeros removed).
func digitsOf(s string) string {
	d := make([]byte, 0, len(s))
	for i := 0; i < len(s); i++ {
		c := s[i]
		if c == 'e' || c == 'E' {
			break
		}
		if c >= '0' && c <= '9' {
			d = append(d, c)
		}
	}
	i := 0
	for i < len(d) && d[i] == '0' {
		i++
	}
	j := len(d)
	for j > i && d[j-1] == '0' {
		j--
	}
	return string(d[i:j])
}

func isPlainInteger(s string) bool {
	if len(s) > 0 && (s[0] == '-' || s[0] == '+') {
		s = s[1:]
	}
	if s == "" {
		return false
	}
	for i := 0; i < len(s); i++ {
		if s[i] < '0' || s[i] > '9' {
			return false
		}
	}
	return true
}
