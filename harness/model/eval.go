package model

import (
	"errors"
	"math"
	"strconv"

	"github.com/remieven/ysgo/verifharness/hast"
)

// Fn is a function callable from scripts, on model values. ok=false in the result
// means "returned nothing".
type Fn func(args []Val) (v Val, hasValue bool, err error)

// Env is what an expression is evaluated against.
type Env struct {
	Get   func(name string) (Val, bool)
	Funcs map[string]Fn
	// Steps counts evaluated nodes (budget).
	Steps int
	// Stats counts evaluation features (may be nil).
	Stats map[string]int
}

func (env *Env) stat(k string) {
	if env.Stats != nil {
		env.Stats[k]++
	}
}

func hasCall(e *hast.Expr, name string) bool {
	if e.K == hast.ECall && e.Text == name {
		return true
	}
	for _, a := range e.Args {
		if hasCall(a, name) {
			return true
		}
	}
	return false
}

var ErrScript = errors.New("script-level fault")

func fault(why string) error { return &Fault{Why: why} }

// Fault is the model's "this must be an error" verdict with a reason for humans.
type Fault struct{ Why string }

func (f *Fault) Error() string { return "model: " + f.Why }

// Eval evaluates e. A returned error means: the property texts require an error here.
func (env *Env) Eval(e *hast.Expr) (Val, error) {
	v, has, err := env.eval(e)
	if err != nil {
		return None, err
	}
	if !has {
		return None, fault("a function that returns nothing was used as a value")
	}
	return v, nil
}

// EvalCall evaluates a call statement's function call (a missing value is fine).
func (env *Env) EvalCall(e *hast.Expr) error {
	_, _, err := env.eval(e)
	return err
}

func (env *Env) eval(e *hast.Expr) (Val, bool, error) {
	env.Steps++
	switch e.K {
	case hast.ENum:
		f, err := strconv.ParseFloat(e.Text, 64)
		if err != nil && !errors.Is(err, strconv.ErrRange) {
			return None, false, fault("bad literal " + e.Text)
		}
		// a decimal literal beyond the range of a float64 is the infinity a correctly rounding conversion gives
		return N(f), true, nil
	case hast.EBool:
		return B(e.B), true, nil
	case hast.EStr:
		return S(e.Text), true, nil
	case hast.ENull:
		return None, false, fault("the null literal")
	case hast.EVar:
		v, ok := env.Get(e.Text)
		if !ok {
			return None, false, fault("unknown variable $" + e.Text)
		}
		return v, true, nil
	case hast.ECall:
		f, ok := env.Funcs[e.Text]
		args := make([]Val, 0, len(e.Args))
		for _, a := range e.Args {
			v, err := env.Eval(a)
			if err != nil {
				return None, false, err
			}
			args = append(args, v)
		}
		if !ok {
			return None, false, fault("unknown function " + e.Text)
		}
		v, has, err := f(args)
		if err != nil {
			return None, false, err
		}
		return v, has, nil
	case hast.ENeg:
		v, err := env.Eval(e.Args[0])
		if err != nil {
			return None, false, err
		}
		env.stat("cell:neg:" + v.T.String())
		if v.T != hast.TNum {
			return None, false, fault("unary minus on " + v.T.String())
		}
		return N(-v.N), true, nil
	case hast.ENot:
		v, err := env.Eval(e.Args[0])
		if err != nil {
			return None, false, err
		}
		env.stat("cell:not:" + v.T.String())
		if v.T != hast.TBool {
			return None, false, fault("not on " + v.T.String())
		}
		return B(!v.B), true, nil
	case hast.EBin:
		v, err := env.bin(e)
		return v, err == nil, err
	}
	return None, false, fault("unknown expression kind")
}

func (env *Env) bin(e *hast.Expr) (Val, error) {
	op := e.Text
	l, err := env.Eval(e.Args[0])
	if err != nil {
		return None, err
	}
	if op == "and" || op == "or" {
		if l.T != hast.TBool {
			env.stat("cell:" + op + ":" + l.T.String() + ",*")
			return None, fault(op + " with a non-boolean left operand")
		}
		if op == "and" && !l.B || op == "or" && l.B {
			env.stat("short-circuit")
			if hasCall(e.Args[1], "p") {
				env.stat("short-circuit-skips-probe")
			}
			return B(l.B), nil
		}
		r, err := env.Eval(e.Args[1])
		if err != nil {
			return None, err
		}
		env.stat("cell:" + op + ":" + l.T.String() + "," + r.T.String())
		if r.T != hast.TBool {
			return None, fault(op + " with a non-boolean right operand")
		}
		return B(r.B), nil
	}
	r, err := env.Eval(e.Args[1])
	if err != nil {
		return None, err
	}
	env.stat("cell:" + op + ":" + l.T.String() + "," + r.T.String())
	v, err := BinOp(op, l, r)
	if err == nil && v.T == hast.TStr && len(v.S) > MaxString {
		// a string that keeps doubling in a loop: the model gives up (budget) before the real runner is asked
		// to build gigabytes
		env.Steps += 3000000
	}
	return v, err
}

// MaxString is the length of a string value beyond which a generated program is discarded (OBudget).
const MaxString = 1 << 20

// BinOp is the operator table for the eager operators.
func BinOp(op string, l, r Val) (Val, error) {
	bothN := l.T == hast.TNum && r.T == hast.TNum
	bothB := l.T == hast.TBool && r.T == hast.TBool
	bothS := l.T == hast.TStr && r.T == hast.TStr
	ill := fault("operator " + op + " on " + l.T.String() + " and " + r.T.String())
	switch op {
	case "*", "/", "%", "-":
		if !bothN {
			return None, ill
		}
		switch op {
		case "*":
			return N(l.N * r.N), nil
		case "/":
			return N(l.N / r.N), nil
		case "%":
			return N(math.Mod(l.N, r.N)), nil
		default:
			return N(l.N - r.N), nil
		}
	case "+":
		if bothN {
			return N(l.N + r.N), nil
		}
		if bothS {
			return S(l.S + r.S), nil
		}
		return None, ill
	case "<", "<=", ">", ">=":
		if !bothN {
			return None, ill
		}
		switch op {
		case "<":
			return B(l.N < r.N), nil
		case "<=":
			return B(l.N <= r.N), nil
		case ">":
			return B(l.N > r.N), nil
		default:
			return B(l.N >= r.N), nil
		}
	case "==", "!=":
		var eq bool
		switch {
		case bothN:
			eq = l.N == r.N
		case bothB:
			eq = l.B == r.B
		case bothS:
			eq = l.S == r.S
		default:
			return None, ill
		}
		if op == "!=" {
			eq = !eq
		}
		return B(eq), nil
	case "xor":
		if !bothB {
			return None, ill
		}
		return B(l.B != r.B), nil
	case "and", "or":
		if !bothB {
			return None, ill
		}
		if op == "and" {
			return B(l.B && r.B), nil
		}
		return B(l.B || r.B), nil
	}
	return None, fault("unknown operator " + op)
}

// Assign computes the value `cur op= v` stores, per C03. has says whether the
// variable currently exists.
func Assign(op string, cur Val, has bool, v Val) (Val, error) {
	if v.T == hast.TNone {
		return None, fault("assignment of no value")
	}
	if !has {
		if op != "=" {
			return None, fault("compound assignment to an unknown variable")
		}
		return v, nil
	}
	if cur.T != v.T {
		return None, fault("assignment would change the variable's type")
	}
	if op == "=" {
		return v, nil
	}
	switch cur.T {
	case hast.TNum:
		return BinOp(op[:1], cur, v)
	case hast.TStr:
		if op == "+=" {
			return S(cur.S + v.S), nil
		}
	}
	return None, fault("operator " + op + " is not defined for " + cur.T.String())
}
