package model

import (
	"regexp"
	"strconv"
	"strings"
	"unicode"

	"github.com/remieven/ysgo/verifharness/hast"
)

// OK is the kind of an outcome of Next.
type OK int

const (
	OLine OK = iota
	OOptions
	OEnd
	OErr
	OBudget // the model gave up (non-yielding loop): the case is discarded
)

func (k OK) String() string { return [...]string{"line", "options", "end", "error", "budget"}[k] }

type Opt struct {
	Text     string
	Tags     []string
	Disabled bool
	Plain    bool
	Nums     []float64
}

// Outcome is what one Next call must return.
type Outcome struct {
	Kind  OK
	Node  string
	Text  string
	Plain bool      // Text can be compared literally (no number outside the plain display zone)
	Nums  []float64 // the numbers marked in Text when !Plain
	Tags  []string
	Opts  []Opt
	Why   string // for OErr: the model's reason (for humans only)
	Stmt  *hast.Stmt
}

// CmdCall is one command invocation the model predicts.
type CmdCall struct {
	Name string
	Args []Val
}

// Host is the host side as the model sees it.
type Host struct {
	Funcs map[string]Fn
	// Cmd runs a registered command to completion and returns its error. Commands
	// that are not registered are absent from the map.
	Cmds map[string]func(args []Val) error
}

type frame struct {
	body []*hast.Stmt
	pc   int
}

// Snapshot is the model's checkpoint.
type Snapshot struct {
	Vars   map[string]Val
	Visits map[string]int
	Node   string
}

func (s Snapshot) Clone() Snapshot {
	c := Snapshot{Vars: map[string]Val{}, Visits: map[string]int{}, Node: s.Node}
	for k, v := range s.Vars {
		c.Vars[k] = v
	}
	for k, v := range s.Visits {
		c.Visits[k] = v
	}
	return c
}

// Machine interprets a program.
type Machine struct {
	Prog    *hast.Program
	Vars    map[string]Val
	Visits  map[string]int
	Cur     string
	Host    *Host
	stack   []frame
	waiting *hast.Stmt
	Ended   bool
	Broken  bool // an error happened: what follows is not specified
	Check   Snapshot
	env     Env

	// per-run statistics (features actually exercised)
	MaxDepth  int
	MaxVisits int
	Jumps     int
	Stats     map[string]int
	StepLimit int // non-yielding statements per Next
	steps     int
	jumpSeen  map[*hast.Stmt]string
}

// New creates a machine positioned at the first node. vars is the initial content
// of the variable store (the host may have pre-populated it).
func New(p *hast.Program, host *Host, vars map[string]Val) *Machine {
	m := &Machine{Prog: p, Vars: map[string]Val{}, Visits: map[string]int{}, Host: host, Stats: map[string]int{}, StepLimit: 5000}
	for k, v := range vars {
		m.Vars[k] = v
	}
	first := p.Nodes[0]
	m.Cur = first.Title
	m.stack = []frame{{body: first.Body}}
	m.checkpoint()
	m.env = Env{Get: func(name string) (Val, bool) { v, ok := m.Vars[name]; return v, ok }, Funcs: map[string]Fn{}, Stats: m.Stats}
	for k, f := range Builtins() {
		m.env.Funcs[k] = f
	}
	m.env.Funcs["visited"] = func(a []Val) (Val, bool, error) {
		if len(a) != 1 || a[0].T != hast.TStr {
			return None, false, fault("visited: wrong arguments")
		}
		return B(m.Visits[a[0].S] > 0), true, nil
	}
	m.env.Funcs["visited_count"] = func(a []Val) (Val, bool, error) {
		if len(a) != 1 || a[0].T != hast.TStr {
			return None, false, fault("visited_count: wrong arguments")
		}
		return N(float64(m.Visits[a[0].S])), true, nil
	}
	if host != nil {
		for k, f := range host.Funcs {
			m.env.Funcs[k] = f
		}
	}
	return m
}

func (m *Machine) checkpoint() {
	m.Check = Snapshot{Vars: map[string]Val{}, Visits: map[string]int{}, Node: m.Cur}
	for k, v := range m.Vars {
		m.Check.Vars[k] = v
	}
	for k, v := range m.Visits {
		m.Check.Visits[k] = v
	}
}

// Restore is RestoreAt.
func (m *Machine) Restore(s Snapshot) bool {
	n := m.Prog.Find(s.Node)
	if n == nil {
		return false
	}
	m.Visits = map[string]int{}
	for k, v := range s.Visits {
		m.Visits[k] = v
	}
	m.Vars = map[string]Val{}
	for k, v := range s.Vars {
		m.Vars[k] = v
	}
	m.Cur = n.Title
	m.stack = []frame{{body: n.Body}}
	m.waiting = nil
	m.Ended = false
	m.Broken = false
	m.checkpoint()
	return true
}

// Depth is the current continuation depth.
func (m *Machine) Depth() int { return len(m.stack) }

// Waiting reports whether the last outcome was an option group.
func (m *Machine) Waiting() bool { return m.waiting != nil }

// NumOptions is the size of the group being waited on.
func (m *Machine) NumOptions() int {
	if m.waiting == nil {
		return 0
	}
	return len(m.waiting.Options)
}

// Leftover counts the statements still pending in the continuation.
func (m *Machine) Leftover() int {
	n := 0
	for _, f := range m.stack {
		n += len(f.body) - f.pc
	}
	return n
}

// numMark brackets the index of a number that is outside the plain display zone.
const numMark = "\x00"

func (m *Machine) text(parts []hast.Part) (string, []float64, error) {
	var b strings.Builder
	var nums []float64
	for _, p := range parts {
		if p.X == nil {
			b.WriteString(p.Out)
			continue
		}
		v, err := m.env.Eval(p.X)
		if err != nil {
			return "", nil, err
		}
		s, pl := Display(v)
		if !pl {
			b.WriteString(numMark + strconv.Itoa(len(nums)) + numMark)
			nums = append(nums, v.N)
			continue
		}
		b.WriteString(s)
	}
	return strings.TrimFunc(b.String(), unicode.IsSpace), nums, nil
}

// TextMatches decides whether got is an acceptable rendering of a text pattern
// produced by the model: literal parts must match exactly, and each marked number
// must be printed in a form CheckNumberText accepts.
func TextMatches(pattern string, nums []float64, got string) bool {
	if len(nums) == 0 {
		return pattern == got
	}
	parts := strings.Split(pattern, numMark)
	// parts alternate: literal, index, literal, index, …, literal. Two numbers may follow each other
	// without a separator, so every way of cutting the observed text is tried.
	var match func(pi int, rest string) bool
	match = func(pi int, rest string) bool {
		if pi == len(parts) {
			return rest == ""
		}
		if pi%2 == 0 {
			if !strings.HasPrefix(rest, parts[pi]) {
				return false
			}
			return match(pi+1, rest[len(parts[pi]):])
		}
		idx, err := strconv.Atoi(parts[pi])
		if err != nil || idx >= len(nums) {
			return false
		}
		for n := 1; n <= len(rest) && n <= 40; n++ {
			if !numeralByte(rest[n-1]) {
				break
			}
			if CheckNumberText(nums[idx], rest[:n]) && match(pi+1, rest[n:]) {
				return true
			}
		}
		return false
	}
	return match(0, got)
}

func numeralByte(c byte) bool {
	return c >= '0' && c <= '9' || c == '.' || c == '-' || c == '+' || c == 'e' || c == 'E' || c == 'I' || c == 'n' || c == 'f' || c == 'N' || c == 'a'
}

func (m *Machine) fail(err error, s *hast.Stmt) Outcome {
	m.Broken = true
	return Outcome{Kind: OErr, Node: m.Cur, Why: err.Error(), Stmt: s}
}

// Next is one step. choice is only looked at right after an option group.
func (m *Machine) Next(choice int) Outcome {
	if m.Ended {
		return Outcome{Kind: OEnd}
	}
	if m.waiting != nil {
		w := m.waiting
		m.waiting = nil
		if choice < 0 || choice >= len(w.Options) {
			// out-of-range choices are outside every property ("in-range choice sequence")
			m.Broken = true
			return Outcome{Kind: OErr, Why: "choice out of range (unspecified)"}
		}
		if body := w.Options[choice].Body; len(body) > 0 {
			m.stack = append(m.stack, frame{body: body})
			m.Stats["chosen-body-nonempty"]++
		} else {
			m.Stats["chosen-body-empty"]++
		}
	}
	m.steps = 0
	for {
		if len(m.stack) > m.MaxDepth {
			m.MaxDepth = len(m.stack)
		}
		if len(m.stack) == 0 {
			m.Ended = true
			m.Stats["end-by-node-end"]++
			return Outcome{Kind: OEnd}
		}
		f := &m.stack[len(m.stack)-1]
		if f.pc >= len(f.body) {
			m.stack = m.stack[:len(m.stack)-1]
			continue
		}
		s := f.body[f.pc]
		f.pc++
		m.steps++
		if m.steps > m.StepLimit || m.env.Steps > 2000000 {
			return Outcome{Kind: OBudget}
		}
		switch s.K {
		case hast.SLine:
			t, nums, err := m.text(s.Parts)
			if err != nil {
				return m.fail(err, s)
			}
			if s.MarkupFault {
				return m.fail(fault("malformed markup in line text"), s)
			}
			return Outcome{Kind: OLine, Node: m.Cur, Text: t, Plain: len(nums) == 0, Nums: nums, Tags: s.Tags, Stmt: s}
		case hast.SOptions:
			out := Outcome{Kind: OOptions, Node: m.Cur, Stmt: s}
			for _, o := range s.Options {
				t, nums, err := m.text(o.Parts)
				if err != nil {
					return m.fail(err, s)
				}
				dis := false
				if o.Cond != nil {
					v, err := m.env.Eval(o.Cond)
					if err != nil {
						return m.fail(err, s)
					}
					if v.T != hast.TBool {
						return m.fail(fault("option condition is not a boolean"), s)
					}
					dis = !v.B
				}
				out.Opts = append(out.Opts, Opt{Text: t, Tags: o.Tags, Disabled: dis, Plain: len(nums) == 0, Nums: nums})
			}
			m.waiting = s
			return out
		case hast.SIf:
			taken := -1
			for i, c := range s.Clauses {
				if c.Cond == nil {
					taken = i
					break
				}
				v, err := m.env.Eval(c.Cond)
				if err != nil {
					return m.fail(err, s)
				}
				if v.T != hast.TBool {
					return m.fail(fault("if condition is not a boolean"), s)
				}
				if v.B {
					taken = i
					break
				}
			}
			if taken >= 0 {
				m.stack = append(m.stack, frame{body: s.Clauses[taken].Body})
				if taken > 0 {
					m.Stats["if-taken-not-first"]++
				}
			} else {
				m.Stats["if-none-taken"]++
			}
		case hast.SSet, hast.SDeclare:
			v, err := m.env.Eval(s.X)
			if err != nil {
				return m.fail(err, s)
			}
			op := s.Op
			if s.K == hast.SDeclare {
				op = "="
			}
			cur, has := m.Vars[s.Var]
			nv, err := Assign(op, cur, has, v)
			if err != nil {
				return m.fail(err, s)
			}
			m.Vars[s.Var] = nv
			if nv.T == hast.TStr && len(nv.S) > MaxString {
				m.env.Steps += 3000000 // see MaxString
			}
		case hast.SJump:
			target := s.Target
			if s.X != nil {
				v, err := m.env.Eval(s.X)
				if err != nil {
					return m.fail(err, s)
				}
				if v.T != hast.TStr {
					return m.fail(fault("jump target is not a string"), s)
				}
				target = v.S
				m.Stats["jump-by-expression"]++
				if s.X.K == hast.EVar {
					if m.jumpSeen == nil {
						m.jumpSeen = map[*hast.Stmt]string{}
					}
					if prev, ok := m.jumpSeen[s]; ok && prev != target {
						m.Stats["same-jump-statement-different-target"]++
					}
					m.jumpSeen[s] = target
				}
			}
			n := m.Prog.Find(target)
			if n == nil {
				return m.fail(fault("unknown node "+target), s)
			}
			if cur := m.Prog.Find(m.Cur); cur != nil && cur.Tracking() != "never" {
				m.Visits[m.Cur]++
				if cur.Tracking() == "always" {
					m.Stats["jump-leaves-tracking-always-node"]++
				} else if cur.Tracking() != "" {
					m.Stats["jump-leaves-node-with-other-tracking-value"]++
				}
				if m.Visits[m.Cur] > m.MaxVisits {
					m.MaxVisits = m.Visits[m.Cur]
				}
			} else {
				m.Stats["jump-leaves-untracked-node"]++
			}
			if len(m.stack) == 1 {
				m.Stats["jump-from-top-level"]++
			}
			if len(m.stack) > 1 {
				m.Stats["jump-out-of-nested-body"]++
			}
			if m.Leftover() > 0 {
				m.Stats["jump-abandons-pending"]++
			}
			if target == m.Cur {
				m.Stats["jump-self"]++
			}
			m.Jumps++
			m.Cur = n.Title
			m.stack = []frame{{body: n.Body}}
			m.checkpoint()
		case hast.SStop:
			if m.Leftover() > 0 {
				m.Stats["stop-with-statements-left"]++
			}
			if len(m.stack) > 1 {
				m.Stats["stop-nested"]++
			}
			m.stack = nil
			m.Ended = true
			m.Stats["end-by-stop"]++
			return Outcome{Kind: OEnd, Stmt: s}
		case hast.SCall:
			if err := m.env.EvalCall(s.X); err != nil {
				return m.fail(err, s)
			}
		case hast.SCommand:
			args := make([]Val, 0, len(s.Args))
			for _, a := range s.Args {
				if a.X != nil {
					v, err := m.env.Eval(a.X)
					if err != nil {
						return m.fail(err, s)
					}
					args = append(args, v)
				} else {
					args = append(args, WordValue(a.Word))
				}
			}
			h, ok := m.Host.Cmds[s.Name]
			if !ok {
				return m.fail(fault("unknown command "+s.Name), s)
			}
			if err := h(args); err != nil {
				return m.fail(err, s)
			}
		}
	}
}

var decimalLiteral = regexp.MustCompile(`^-?[0-9]+(\.[0-9]+)?$`)

// WordValue is the typing rule of C17 for a bare command word.
func WordValue(w string) Val {
	switch {
	case w == "true":
		return B(true)
	case w == "false":
		return B(false)
	case decimalLiteral.MatchString(w):
		f, _ := strconv.ParseFloat(w, 64)
		return N(f)
	}
	return S(w)
}
