package model

import (
	"math"
	"strconv"

	"github.com/remieven/ysgo/verifharness/hast"
)

func num1(name string, f func(float64) float64) Fn {
	return func(a []Val) (Val, bool, error) {
		if len(a) != 1 || a[0].T != hast.TNum {
			return None, false, fault(name + ": wrong arguments")
		}
		return N(f(a[0].N)), true, nil
	}
}

// Builtins are the deterministic built-in functions as far as the flow / rendering
// models need them (the contracts of C19 are checked separately as predicates; the
// random built-ins are never used by model-compared programs).
func Builtins() map[string]Fn {
	return map[string]Fn{
		"floor":   num1("floor", math.Floor),
		"ceil":    num1("ceil", math.Ceil),
		"round":   num1("round", math.Round),
		"integer": num1("integer", math.Trunc),
		"decimal": num1("decimal", func(x float64) float64 { return x - math.Trunc(x) }),
		"inc": num1("inc", func(x float64) float64 {
			return math.Floor(x) + 1
		}),
		"dec": num1("dec", func(x float64) float64 {
			return math.Ceil(x) - 1
		}),
		"string": func(a []Val) (Val, bool, error) {
			if len(a) != 1 || a[0].T == hast.TNone {
				return None, false, fault("string: wrong arguments")
			}
			s, _ := Display(a[0])
			return S(s), true, nil
		},
		"number": func(a []Val) (Val, bool, error) {
			if len(a) != 1 {
				return None, false, fault("number: wrong arguments")
			}
			switch a[0].T {
			case hast.TNum:
				return a[0], true, nil
			case hast.TBool:
				if a[0].B {
					return N(1), true, nil
				}
				return N(0), true, nil
			case hast.TStr:
				f, err := strconv.ParseFloat(a[0].S, 64)
				if err != nil {
					return None, false, fault("number: not a number")
				}
				return N(f), true, nil
			}
			return None, false, fault("number: wrong arguments")
		},
		"bool": func(a []Val) (Val, bool, error) {
			if len(a) != 1 {
				return None, false, fault("bool: wrong arguments")
			}
			switch a[0].T {
			case hast.TBool:
				return a[0], true, nil
			case hast.TNum:
				return B(a[0].N != 0), true, nil
			case hast.TStr:
				switch a[0].S {
				case "true", "True":
					return B(true), true, nil
				case "false", "False":
					return B(false), true, nil
				}
				return None, false, fault("bool: not a boolean")
			}
			return None, false, fault("bool: wrong arguments")
		},
	}
}
