// Package mon holds the recorders that sit at ysgo's public boundary, the wrapper
// that drives a real DialogueRunner and turns what it returns into observations,
// and the comparator between observations and the model's outcomes.
package mon

import (
	"errors"
	"fmt"
	"io"
	"math"
	"runtime"
	"runtime/debug"
	"sort"
	"strings"
	"time"

	ysgo "github.com/remieven/ysgo"
	"github.com/remieven/ysgo/markup"
	"github.com/remieven/ysgo/variable"
	"github.com/remieven/ysgo/verifharness/hast"
	"github.com/remieven/ysgo/verifharness/model"
)

// ---------------------------------------------------------------- values

// ToVal converts a ysgo value to a model value. ok is false when the value is
// malformed (nil, or more than one of the three fields set).
func ToVal(v *variable.Value) (model.Val, bool) {
	if v == nil {
		return model.None, false
	}
	n := 0
	var r model.Val = model.None
	if v.Number != nil {
		n++
		r = model.N(*v.Number)
	}
	if v.Boolean != nil {
		n++
		r = model.B(*v.Boolean)
	}
	if v.String != nil {
		n++
		r = model.S(*v.String)
	}
	return r, n == 1
}

func FromVal(v model.Val) *variable.Value {
	switch v.T {
	case hast.TNum:
		return variable.NewNumber(v.N)
	case hast.TBool:
		return variable.NewBoolean(v.B)
	case hast.TStr:
		return variable.NewString(v.S)
	}
	return nil
}

// ---------------------------------------------------------------- storer

// RecStorer is a host-supplied variable.Storer with one typed slot per name that
// records how it is used. It is the only place the values exist, so a runner that
// keeps variables anywhere else is detected by the state comparison.
type RecStorer struct {
	vals        map[string]model.Val
	Writes      int
	Reads       int
	Clears      int
	TypeChanges []string
	WriteLog    []string
	KeepLog     bool
	// MapIdiom makes GetValue answer an unknown name the way the usual map idiom does
	// (v, ok := m[name]; return &v, ok): a non-nil, empty Value together with ok == false.
	MapIdiom bool
}

func NewRecStorer() *RecStorer { return &RecStorer{vals: map[string]model.Val{}} }

func (s *RecStorer) GetValue(name string) (*variable.Value, bool) {
	s.Reads++
	v, ok := s.vals[name]
	if !ok {
		if s.MapIdiom {
			return &variable.Value{}, false
		}
		return nil, false
	}
	return FromVal(v), true
}

func (s *RecStorer) GetValues() map[string]variable.Value {
	s.Reads++
	m := make(map[string]variable.Value, len(s.vals))
	for k, v := range s.vals {
		m[k] = *FromVal(v)
	}
	return m
}

func (s *RecStorer) Contains(name string) bool {
	s.Reads++
	_, ok := s.vals[name]
	return ok
}

func (s *RecStorer) set(name string, v model.Val) {
	s.Writes++
	if old, ok := s.vals[name]; ok && old.T != v.T {
		s.TypeChanges = append(s.TypeChanges, fmt.Sprintf("%s: %s -> %s", name, old.T, v.T))
	}
	if s.KeepLog {
		s.WriteLog = append(s.WriteLog, name+"="+v.String())
	}
	s.vals[name] = v
}

func (s *RecStorer) SetNumberValue(name string, v float64) { s.set(name, model.N(v)) }
func (s *RecStorer) SetBooleanValue(name string, v bool)   { s.set(name, model.B(v)) }
func (s *RecStorer) SetStringValue(name string, v string)  { s.set(name, model.S(v)) }
func (s *RecStorer) Clear() {
	s.Clears++
	s.vals = map[string]model.Val{}
}

// HostSet is a write made by the host (not counted as a runner write).
func (s *RecStorer) HostSet(name string, v model.Val) { s.vals[name] = v }

// Vals returns the live content.
func (s *RecStorer) Vals() map[string]model.Val { return s.vals }

var _ variable.Storer = (*RecStorer)(nil)

// StateDiff compares the model's variables with a store's content ("" = equal).
func StateDiff(want map[string]model.Val, got map[string]variable.Value) string {
	var d []string
	for k, w := range want {
		g, ok := got[k]
		if !ok {
			d = append(d, fmt.Sprintf("$%s missing (want %s)", k, w))
			continue
		}
		gv, wellFormed := ToVal(&g)
		if !wellFormed {
			d = append(d, fmt.Sprintf("$%s malformed value", k))
			continue
		}
		if !model.Same(w, gv, false) {
			d = append(d, fmt.Sprintf("$%s = %s, want %s", k, gv, w))
		}
	}
	for k, g := range got {
		if _, ok := want[k]; !ok {
			gv, _ := ToVal(&g)
			d = append(d, fmt.Sprintf("$%s = %s unexpected", k, gv))
		}
	}
	sort.Strings(d)
	return strings.Join(d, "; ")
}

// ---------------------------------------------------------------- host functions and commands

// HostLog is the ordered log of host-side invocations (probes, commands).
type HostLog struct{ E []string }

func (l *HostLog) add(s string) { l.E = append(l.E, s) }

// Add appends an entry.
func (l *HostLog) Add(s string) { l.add(s) }

// FmtArgs formats typed arguments for a log entry.
func FmtArgs(a []model.Val) string { return fmtArgs(a) }

func fmtArgs(a []model.Val) string {
	p := make([]string, len(a))
	for i, v := range a {
		p[i] = v.String()
	}
	return strings.Join(p, ",")
}

// ErrHost is the sentinel error host functions and commands return on purpose.
var ErrHost = errors.New("sentinel error injected by the harness")

// FlowFuncs are the probe functions scripts can call. Every invocation is logged
// with its typed arguments.
//
//	p(id, v)   returns v (any type)           — evaluation order / count probe
//	noret(id)  returns nothing
//	cap(id, v) returns nothing                — captures a typed value
//	hfail(id)  returns the sentinel error
//	pure(v)    returns v, not logged
func FlowFuncs(log *HostLog) map[string]model.Fn {
	return map[string]model.Fn{
		"p": func(a []model.Val) (model.Val, bool, error) {
			log.add("p(" + fmtArgs(a) + ")")
			if len(a) != 2 {
				return model.None, false, ErrHost
			}
			return a[1], true, nil
		},
		"noret": func(a []model.Val) (model.Val, bool, error) {
			log.add("noret(" + fmtArgs(a) + ")")
			return model.None, false, nil
		},
		"cap": func(a []model.Val) (model.Val, bool, error) {
			log.add("cap(" + fmtArgs(a) + ")")
			return model.None, false, nil
		},
		"hfail": func(a []model.Val) (model.Val, bool, error) {
			log.add("hfail(" + fmtArgs(a) + ")")
			return model.None, false, ErrHost
		},
		"pure": func(a []model.Val) (model.Val, bool, error) {
			if len(a) != 1 {
				return model.None, false, ErrHost
			}
			return a[0], true, nil
		},
	}
}

// FlowCmdNames are the generic commands registered for flow programs.
var FlowCmdNames = []string{"act", "emote", "play", "fx", "cmdfail"}

func FlowCmds(log *HostLog) map[string]func([]model.Val) error {
	m := map[string]func([]model.Val) error{}
	for _, n := range FlowCmdNames {
		name := n
		m[name] = func(a []model.Val) error {
			log.add("<<" + name + " " + fmtArgs(a) + ">>")
			if name == "cmdfail" {
				return ErrHost
			}
			return nil
		}
	}
	return m
}

// AdaptFn turns a model function into a raw ysgo function.
func AdaptFn(f model.Fn) ysgo.YarnSpinnerFunction {
	return func(args []*variable.Value) (*variable.Value, error) {
		a := make([]model.Val, len(args))
		for i, v := range args {
			a[i], _ = ToVal(v)
		}
		v, has, err := f(a)
		if err != nil {
			return nil, err
		}
		if !has {
			return nil, nil
		}
		return FromVal(v), nil
	}
}

// AdaptCmd turns a model command into a raw ysgo command that is complete on return.
func AdaptCmd(f func([]model.Val) error) ysgo.YarnSpinnerCommand {
	return func(args []*variable.Value) <-chan error {
		a := make([]model.Val, len(args))
		for i, v := range args {
			a[i], _ = ToVal(v)
		}
		ch := make(chan error, 1)
		ch <- f(a)
		return ch
	}
}

// ---------------------------------------------------------------- observations

type ObsKind int

const (
	KLine ObsKind = iota
	KOptions
	KEnd
	KErr
	KWaiting
	KPanic
)

func (k ObsKind) String() string {
	return [...]string{"line", "options", "end", "error", "waiting", "PANIC"}[k]
}

type ObsOpt struct {
	Text     string
	Tags     []string
	Disabled bool
	Attrs    []markup.Attribute
}

// Obs is what one Next call returned.
type Obs struct {
	Kind  ObsKind
	Node  string
	Text  string
	Tags  []string
	Attrs []markup.Attribute
	Opts  []ObsOpt
	Err   error
	Panic string
	Polls int // how many times Next said "waiting" before this result
}

func (o Obs) String() string {
	switch o.Kind {
	case KLine:
		return fmt.Sprintf("line[%s] %q tags=%v", o.Node, o.Text, o.Tags)
	case KOptions:
		var p []string
		for _, x := range o.Opts {
			p = append(p, fmt.Sprintf("%q tags=%v disabled=%v", x.Text, x.Tags, x.Disabled))
		}
		return fmt.Sprintf("options[%s] {%s}", o.Node, strings.Join(p, " | "))
	case KEnd:
		return "end"
	case KErr:
		return "error: " + o.Err.Error()
	case KWaiting:
		return "waiting-for-command"
	}
	return "PANIC: " + o.Panic
}

// Real wraps a DialogueRunner.
type Real struct {
	DR *ysgo.DialogueRunner
	// Keep makes the wrapper hold on to every element Next returned (a host that keeps a transcript) together
	// with a description taken at the time; Recheck compares them later.
	Keep bool
	// Scribble makes the wrapper (as the host) overwrite the tags of every element it is handed, after it has
	// copied what it needs: the element is the host's value, and what the host does to it stays with it.
	Scribble bool
	kept     []keptElement
}

type keptElement struct {
	el   *ysgo.DialogueElement
	then string
}

func describeElement(el *ysgo.DialogueElement) string {
	var b strings.Builder
	fmt.Fprintf(&b, "node=%q", el.Node)
	if el.Line != nil {
		fmt.Fprintf(&b, " line=%q tags=%q attrs=%v", el.Line.Text, el.Line.Tags, el.Line.Attributes)
	}
	for i, op := range el.Options {
		fmt.Fprintf(&b, " option[%d] disabled=%v", i, op.Disabled)
		if op.Line != nil {
			fmt.Fprintf(&b, " text=%q tags=%q attrs=%v", op.Line.Text, op.Line.Tags, op.Line.Attributes)
		}
	}
	return b.String()
}

func scribbleTags(el *ysgo.DialogueElement) {
	if el.Line != nil {
		for i := range el.Line.Tags {
			el.Line.Tags[i] = "scribbled-by-the-host"
		}
	}
	for _, op := range el.Options {
		if op.Line != nil {
			for i := range op.Line.Tags {
				op.Line.Tags[i] = "scribbled-by-the-host"
			}
		}
	}
}

// Recheck compares every kept element with what it was when it was returned. "" when nothing changed.
func (r *Real) Recheck() string {
	for i, k := range r.kept {
		if now := describeElement(k.el); now != k.then {
			return fmt.Sprintf("element %d returned by Next was {%s} when it was returned and is {%s} now", i, k.then, now)
		}
	}
	return ""
}

// KeptCount is the number of elements held.
func (r *Real) KeptCount() int { return len(r.kept) }

// Create calls NewDialogueRunner under a panic guard.
func Create(st variable.Storer, seed string, scripts []string) (r *Real, err error, panicked string) {
	defer func() {
		if p := recover(); p != nil {
			panicked = fmt.Sprintf("%v\n%s", p, debug.Stack())
		}
	}()
	readers := make([]ioReader, len(scripts))
	for i, s := range scripts {
		readers[i] = strings.NewReader(s)
	}
	var dr *ysgo.DialogueRunner
	if st == nil {
		// a typed nil pointer inside the interface would not be == nil for ysgo
		dr, err = ysgo.NewDialogueRunner(nil, seed, readers...)
	} else {
		dr, err = ysgo.NewDialogueRunner(st, seed, readers...)
	}
	if err != nil {
		return nil, err, ""
	}
	return &Real{DR: dr}, nil, ""
}

// CreateFrom is Create with readers supplied by the caller.
func CreateFrom(st variable.Storer, seed string, readers []io.Reader) (r *Real, err error, panicked string) {
	defer func() {
		if p := recover(); p != nil {
			panicked = fmt.Sprintf("%v\n%s", p, debug.Stack())
		}
	}()
	var dr *ysgo.DialogueRunner
	if st == nil {
		dr, err = ysgo.NewDialogueRunner(nil, seed, readers...)
	} else {
		dr, err = ysgo.NewDialogueRunner(st, seed, readers...)
	}
	if err != nil {
		return nil, err, ""
	}
	return &Real{DR: dr}, nil, ""
}

// PanicErr is what RestoreAt reports when the library panicked instead of returning.
type PanicErr struct{ Text string }

func (e *PanicErr) Error() string { return "PANIC in RestoreAt: " + e.Text }

// RestoreAt calls DialogueRunner.RestoreAt under a panic guard.
func (r *Real) RestoreAt(s *ysgo.Snapshot) (err error) {
	defer func() {
		if p := recover(); p != nil {
			err = &PanicErr{Text: fmt.Sprintf("%v\n%s", p, debug.Stack())}
		}
	}()
	return r.DR.RestoreAt(s)
}

// Install registers model functions / commands on the runner.
func (r *Real) Install(funcs map[string]model.Fn, cmds map[string]func([]model.Val) error) {
	for k, f := range funcs {
		r.DR.AddFunction(k, AdaptFn(f))
	}
	for k, f := range cmds {
		r.DR.AddCommand(k, AdaptCmd(f))
	}
}

// Once calls Next exactly once.
func (r *Real) Once(choice int) (o Obs) {
	defer func() {
		if p := recover(); p != nil {
			o = Obs{Kind: KPanic, Panic: fmt.Sprintf("%v\n%s", p, debug.Stack())}
		}
	}()
	el, err := r.DR.Next(choice)
	defer func() {
		// runs after the observation below was built (from copies): the element is the host's value now
		if r.Keep && el != nil && err == nil {
			if r.Scribble {
				scribbleTags(el)
			}
			if len(r.kept) < 400 {
				r.kept = append(r.kept, keptElement{el, describeElement(el)})
			}
		}
	}()
	switch {
	case err != nil && errors.Is(err, ysgo.ErrWaitingForCommandCompletion):
		return Obs{Kind: KWaiting, Err: err}
	case err != nil:
		return Obs{Kind: KErr, Err: err}
	case el == nil:
		return Obs{Kind: KEnd}
	case el.Line != nil:
		return Obs{Kind: KLine, Node: el.Node, Text: el.Line.Text, Tags: append([]string(nil), el.Line.Tags...), Attrs: el.Line.Attributes}
	default:
		o := Obs{Kind: KOptions, Node: el.Node}
		for _, op := range el.Options {
			x := ObsOpt{Disabled: op.Disabled}
			if op.Line != nil {
				x.Text, x.Tags, x.Attrs = op.Line.Text, append([]string(nil), op.Line.Tags...), op.Line.Attributes
			}
			o.Opts = append(o.Opts, x)
		}
		return o
	}
}

// Next calls Next and, as long as the runner says it is waiting for a command,
// polls again (bounded): flow-level checks register commands that are complete on
// return, but a runner is allowed to notice that only at the following poll.
func (r *Real) Next(choice int) Obs {
	polls := 0
	for {
		o := r.Once(choice)
		if o.Kind != KWaiting || polls >= 2000 {
			o.Polls = polls
			return o
		}
		polls++
		if polls > 20 {
			time.Sleep(50 * time.Microsecond)
		} else {
			runtime.Gosched()
		}
	}
}

type ioReader = io.Reader

func tagsEq(a, b []string) bool {
	if len(a) != len(b) {
		return false
	}
	for i := range a {
		if a[i] != b[i] {
			return false
		}
	}
	return true
}

// Compare checks one observation against the model's outcome ("" = agrees).
func Compare(want model.Outcome, got Obs) string {
	switch want.Kind {
	case model.OEnd:
		if got.Kind != KEnd {
			return "want end, got " + got.String()
		}
	case model.OErr:
		if got.Kind != KErr {
			return "want an error (" + want.Why + "), got " + got.String()
		}
	case model.OLine:
		if got.Kind != KLine {
			return fmt.Sprintf("want line %q, got %s", want.Text, got)
		}
		if got.Node != want.Node {
			return fmt.Sprintf("line %q attributed to node %q, want %q", got.Text, got.Node, want.Node)
		}
		if !model.TextMatches(want.Text, want.Nums, got.Text) {
			return fmt.Sprintf("line text %q, want %q%s", got.Text, want.Text, numNote(want.Nums))
		}
		if !tagsEq(want.Tags, got.Tags) {
			return fmt.Sprintf("line %q tags %q, want %q", got.Text, got.Tags, want.Tags)
		}
	case model.OOptions:
		if got.Kind != KOptions {
			return fmt.Sprintf("want %d options, got %s", len(want.Opts), got)
		}
		if got.Node != want.Node {
			return fmt.Sprintf("options attributed to node %q, want %q", got.Node, want.Node)
		}
		if len(got.Opts) != len(want.Opts) {
			return fmt.Sprintf("%d options, want %d (%s)", len(got.Opts), len(want.Opts), got)
		}
		for i, w := range want.Opts {
			g := got.Opts[i]
			if !model.TextMatches(w.Text, w.Nums, g.Text) {
				return fmt.Sprintf("option %d text %q, want %q%s", i, g.Text, w.Text, numNote(w.Nums))
			}
			if !tagsEq(w.Tags, g.Tags) {
				return fmt.Sprintf("option %d tags %q, want %q", i, g.Tags, w.Tags)
			}
			if g.Disabled != w.Disabled {
				return fmt.Sprintf("option %d Disabled=%v, want %v", i, g.Disabled, w.Disabled)
			}
		}
	}
	return ""
}

func numNote(nums []float64) string {
	if len(nums) == 0 {
		return ""
	}
	return fmt.Sprintf(" (\\x00i\\x00 = any integral/shortest-round-trip rendering of %v)", nums)
}

// LogDiff compares two host logs ("" = equal).
func LogDiff(want, got []string) string {
	n := len(want)
	if len(got) < n {
		n = len(got)
	}
	for i := 0; i < n; i++ {
		if want[i] != got[i] {
			return fmt.Sprintf("host event %d is %s, want %s", i, got[i], want[i])
		}
	}
	if len(got) > len(want) {
		return fmt.Sprintf("unexpected extra host event %s", got[len(want)])
	}
	if len(want) > len(got) {
		return fmt.Sprintf("missing host event %s", want[len(got)])
	}
	return ""
}

// SnapDiff compares a ysgo snapshot with a model checkpoint ("" = equal; nil maps
// equal empty maps).
func SnapDiff(want model.Snapshot, got *ysgo.Snapshot) string {
	if got == nil {
		return "nil snapshot"
	}
	var d []string
	if got.CurrentNode != want.Node {
		d = append(d, fmt.Sprintf("CurrentNode %q, want %q", got.CurrentNode, want.Node))
	}
	if s := StateDiff(want.Vars, got.Variables); s != "" {
		d = append(d, "Variables: "+s)
	}
	for k, w := range want.Visits {
		if w != 0 && got.VisitedNodes[k] != w {
			d = append(d, fmt.Sprintf("VisitedNodes[%s]=%d, want %d", k, got.VisitedNodes[k], w))
		}
	}
	for k, g := range got.VisitedNodes {
		if g != want.Visits[k] {
			d = append(d, fmt.Sprintf("VisitedNodes[%s]=%d, want %d", k, g, want.Visits[k]))
		}
	}
	sort.Strings(d)
	// duplicates from the two loops
	var u []string
	for i, s := range d {
		if i == 0 || s != d[i-1] {
			u = append(u, s)
		}
	}
	return strings.Join(u, "; ")
}

// CopySnap deep-copies a ysgo snapshot.
func CopySnap(s *ysgo.Snapshot) *ysgo.Snapshot {
	c := &ysgo.Snapshot{CurrentNode: s.CurrentNode}
	if s.Variables != nil {
		c.Variables = map[string]variable.Value{}
		for k, v := range s.Variables {
			c.Variables[k] = cloneValue(v)
		}
	}
	if s.VisitedNodes != nil {
		c.VisitedNodes = map[string]int{}
		for k, v := range s.VisitedNodes {
			c.VisitedNodes[k] = v
		}
	}
	return c
}

func cloneValue(v variable.Value) variable.Value {
	var c variable.Value
	if v.Number != nil {
		x := *v.Number
		c.Number = &x
	}
	if v.Boolean != nil {
		x := *v.Boolean
		c.Boolean = &x
	}
	if v.String != nil {
		x := *v.String
		c.String = &x
	}
	return c
}

// SnapEq compares two ysgo snapshots deeply (nil ≡ empty; NaN ≡ NaN).
func SnapEq(a, b *ysgo.Snapshot) string {
	if a.CurrentNode != b.CurrentNode {
		return fmt.Sprintf("CurrentNode %q vs %q", a.CurrentNode, b.CurrentNode)
	}
	am := map[string]model.Val{}
	for k, v := range a.Variables {
		am[k], _ = ToVal(&v)
	}
	if s := StateDiff(am, b.Variables); s != "" {
		return "Variables: " + s
	}
	for k, v := range a.VisitedNodes {
		if b.VisitedNodes[k] != v {
			return fmt.Sprintf("VisitedNodes[%s] %d vs %d", k, v, b.VisitedNodes[k])
		}
	}
	for k, v := range b.VisitedNodes {
		if a.VisitedNodes[k] != v {
			return fmt.Sprintf("VisitedNodes[%s] %d vs %d", k, a.VisitedNodes[k], v)
		}
	}
	return ""
}

var _ = math.NaN
