package gen

import (
	"fmt"
	"strconv"
	"strings"
	"unicode"

	"github.com/remieven/ysgo/verifharness/core"
)

// ExpVal is the expected value of a markup property.
type ExpVal struct {
	Kind string // "int", "float", "bool", "string"
	I    int
	F    float64
	B    bool
	S    string
}

// ExpAttr is a marker's ground truth: the range it encloses in the final text.
type ExpAttr struct {
	Name     string
	Pos, Len int // in runes of the returned (trimmed) text
	Props    map[string]ExpVal
	Enclosed string
}

// MarkupCase is one generated line with its ground truth.
type MarkupCase struct {
	Src        string
	Text       string
	Attrs      []ExpAttr
	Features   []string
	ScriptSafe bool // can be written as a line of a script without changing its meaning
}

type openMarker struct {
	name  string
	start int
	props map[string]ExpVal
}

type mkGen struct {
	r     *core.Rand
	src   strings.Builder
	out   []rune
	open  []openMarker
	attrs []ExpAttr // positions in untrimmed coordinates until finish()
	feats map[string]bool
	// lastWasSpaceChunk: the source item right before this point is a text chunk ending in an emitted white-space character
	lastSpace bool
	// swallowNext: the marker just written swallows one following white-space character
	swallowNext bool
	afterEscape bool
	usedNames   map[string]int
	backslash   bool
}

var mkNames = []string{"b", "wave", "i2", "shake", "é", "日本", "_x", "color", "Ünï", "a", "Wave", "WAVE", "B", "Shake", "É"}
var textPools = map[string][]string{
	"ascii":     {"a", "b", "hello", "X", "z9", "it's", "ok!", "n,m", "-", "+", "(x)", "100%"},
	"multibyte": {"é", "ß", "Ωμέγα", "ж", "ñandú"},
	"cjk":       {"日本", "語", "한글", "\ufffd", "a\ufffdb"},
	"astral":    {"😀", "𝔘𝔫", "🜲"},
	"blank":     {" ", "  ", " ", "\t"},
	// backslashes that are NOT escapes (only \[ and \] are): each one is a character of the text. Every entry
	// ends with another character, so that no backslash ever stands directly before a marker's bracket.
	"backslash": {"\\\\.", "a\\b", "\\\\\\\\-", "\\n", "x\\\\y"},
}
var textPoolNames = []string{"ascii", "ascii", "multibyte", "cjk", "astral", "blank", "blank", "ascii", "multibyte", "cjk", "astral", "blank", "blank", "ascii", "backslash"}

func (g *mkGen) feat(f string) { g.feats[f] = true }

func (g *mkGen) emitText(s string) {
	rs := []rune(s)
	if g.swallowNext && len(rs) > 0 && unicode.IsSpace(rs[0]) {
		// one white-space character is swallowed by the marker before it
		g.src.WriteString(s)
		rs = rs[1:]
		g.feat("swallowed-whitespace")
		g.out = append(g.out, rs...)
	} else {
		g.src.WriteString(s)
		g.out = append(g.out, rs...)
	}
	g.swallowNext = false
	g.afterEscape = false
	all := []rune(s)
	g.lastSpace = len(all) > 0 && unicode.IsSpace(all[len(all)-1]) && len(rs) > 0
	if len(rs) == 0 {
		// the whole chunk was the swallowed character: for the parser nothing was read
		g.lastSpace = false
	}
}

func (g *mkGen) chunk() {
	r := g.r
	var b strings.Builder
	for k := r.Range(1, 3); k > 0; k-- {
		pool := textPoolNames[r.Intn(len(textPoolNames))]
		v := textPools[pool]
		b.WriteString(v[r.Intn(len(v))])
		g.feat("text:" + pool)
		if pool == "backslash" {
			g.backslash = true
		}
	}
	s := b.String()
	rs := []rune(s)
	if g.swallowNext && unicode.IsSpace(rs[0]) {
		// open area avoided: after the swallowed character comes at least one more, non-blank character
		s += "x"
	}
	if len(g.open) > 0 && len([]rune(s)) != len(s) {
		g.feat("multi-byte-inside-marker")
	}
	if len(g.open) == 0 && len([]rune(s)) != len(s) {
		g.feat("multi-byte-before-or-between-markers")
	}
	g.emitText(s)
}

func (g *mkGen) ws() string {
	if g.r.Chance(1, 5) {
		return g.r.Pick(" ", "  ")
	}
	return ""
}

// props generates 0-3 properties and their source text (with a leading blank each).
func (g *mkGen) props(max int, exclude map[string]bool) (string, map[string]ExpVal) {
	r := g.r
	var b strings.Builder
	props := map[string]ExpVal{}
	for k := r.PickW(40, 30, 20, 10); k > 0 && len(props) < max; k-- {
		name := r.Pick("p", "size", "k2", "clé", "name", "when", "q")
		if _, dup := props[name]; dup || exclude[name] {
			continue
		}
		src, v := g.value()
		props[name] = v
		b.WriteString(" " + name + g.ws() + "=" + g.ws() + src)
	}
	return b.String(), props
}

func (g *mkGen) value() (string, ExpVal) {
	r := g.r
	switch r.Intn(7) {
	case 0:
		s := r.Pick("12", "0", "7", "123456789", "42")
		i, _ := strconv.Atoi(s)
		g.feat("value:integer")
		return s, ExpVal{Kind: "int", I: i}
	case 1:
		s := r.Pick("007", "00", "010")
		i, _ := strconv.Atoi(s)
		g.feat("value:integer-leading-zeros")
		return s, ExpVal{Kind: "int", I: i}
	case 2:
		s := r.Pick("1.05", "0.007", "2.50", "3.14159", "10.001", "0.5", "12.0", "1.10", "0.00001")
		if r.Bool() {
			// any literal: the value is the double nearest to the written decimal (what ParseFloat gives), not
			// the result of some arithmetic on its parts
			s = randomDecimal(r)
			g.feat("value:decimal-random-literal")
		}
		f, _ := strconv.ParseFloat(s, 64)
		g.feat("value:decimal")
		if strings.Contains(s, ".0") {
			g.feat("value:decimal-fraction-leading-zero")
		}
		return s, ExpVal{Kind: "float", F: f}
	case 3:
		s := r.Pick("true", "false", "True", "False", "TRUE", "FALSE")
		g.feat("value:boolean")
		return s, ExpVal{Kind: "bool", B: strings.ToLower(s) == "true"}
	case 4:
		inner := r.Pick("q s", "", "é è", "x=1", "[not markup]", "a/b", "日本 語", "tail ")
		src := `"` + inner + `"`
		if r.Chance(1, 5) {
			src = `"say \"hi\""`
			inner = `say "hi"`
			g.backslash = true
			g.feat("value:quoted-with-escape")
		}
		g.feat("value:quoted-string")
		return src, ExpVal{Kind: "string", S: inner}
	default:
		s := r.Pick("word", "red", "x1", "été", "tRuthy", "t", "f", "yes", "no", "T", "nul", "日本")
		g.feat("value:bare-word")
		return s, ExpVal{Kind: "string", S: s}
	}
}

func (g *mkGen) pickName() string {
	r := g.r
	for tries := 0; tries < 20; tries++ {
		n := mkNames[r.Intn(len(mkNames))]
		nested := false
		for _, o := range g.open {
			if o.name == n {
				nested = true
			}
		}
		if !nested {
			if g.usedNames[n] > 0 {
				g.feat("repeated-name")
			}
			g.usedNames[n]++
			if len([]rune(n)) != len(n) {
				g.feat("multi-byte-marker-name")
			}
			return n
		}
	}
	return fmt.Sprintf("m%d", len(g.usedNames)+len(g.open)+100)
}

func (g *mkGen) markerWritten() {
	g.lastSpace = false
	g.afterEscape = false
}

func (g *mkGen) openMarker() {
	name := g.pickName()
	var psrc string
	var props map[string]ExpVal
	if g.r.Chance(1, 6) {
		// shorthand [a=v]
		vs, v := g.value()
		psrc2, p2 := g.props(2, map[string]bool{name: true})
		props = p2
		props[name] = v
		g.src.WriteString("[" + g.ws() + name + "=" + vs + psrc2 + g.ws() + "]")
		g.feat("shorthand-property")
	} else {
		psrc, props = g.props(3, nil)
		g.src.WriteString("[" + g.ws() + name + psrc + g.ws() + "]")
	}
	if len(g.open) > 0 {
		g.feat("nested-or-overlapping-open")
	}
	g.open = append(g.open, openMarker{name: name, start: len(g.out), props: props})
	g.swallowNext = false
	g.markerWritten()
}

func (g *mkGen) closeAt(i int) {
	o := g.open[i]
	g.attrs = append(g.attrs, ExpAttr{Name: o.name, Pos: o.start, Len: len(g.out) - o.start, Props: o.props})
	g.open = append(g.open[:i], g.open[i+1:]...)
}

func (g *mkGen) closeByName() {
	i := g.r.Intn(len(g.open))
	if i != len(g.open)-1 {
		g.feat("overlap-close-out-of-order")
	}
	name := g.open[i].name
	g.src.WriteString("[" + g.ws() + "/" + g.ws() + name + g.ws() + "]")
	g.closeAt(i)
	g.swallowNext = false
	g.markerWritten()
}

func (g *mkGen) closeAll() {
	g.src.WriteString("[" + g.ws() + "/" + g.ws() + "]")
	if len(g.open) >= 2 {
		g.feat("close-all-closes-several")
	}
	for len(g.open) > 0 {
		g.closeAt(0)
	}
	g.feat("close-all")
	g.swallowNext = false
	g.markerWritten()
}

func (g *mkGen) selfClosing() {
	name := g.pickName()
	psrc, props := g.props(2, map[string]bool{"trimwhitespace": true})
	trimOff := false
	if g.r.Chance(1, 5) {
		psrc += " trimwhitespace=false"
		props["trimwhitespace"] = ExpVal{Kind: "bool", B: false}
		trimOff = true
		g.feat("trimwhitespace=false")
	}
	g.src.WriteString("[" + g.ws() + name + psrc + g.ws() + "/" + g.ws() + "]")
	g.attrs = append(g.attrs, ExpAttr{Name: name, Pos: len(g.out), Len: 0, Props: props})
	// documented rule: a self-closing marker that follows white space or starts the line swallows
	// one following white-space character, unless trimwhitespace=false
	g.swallowNext = !trimOff && (len(g.out) == 0 || g.lastSpace)
	if len(g.out) == 0 {
		g.feat("self-closing-at-line-start")
	} else if g.lastSpace {
		g.feat("self-closing-after-whitespace")
	} else {
		g.feat("self-closing-after-text")
	}
	g.markerWritten()
}

// randomDecimal writes a decimal literal with one to seven fraction digits.
func randomDecimal(r *core.Rand) string {
	ip := r.Pick("0", "1", "2", "7", "19", "100", "4095", "65536")
	if r.Bool() {
		ip = strconv.Itoa(r.Intn(1000))
	}
	n := 1 + r.Intn(7)
	var b strings.Builder
	for i := 0; i < n; i++ {
		b.WriteByte(byte('0' + r.Intn(10)))
	}
	return ip + "." + b.String()
}

func quoteProp(s string) string { return `"` + s + `"` }

func (g *mkGen) replacement() {
	r := g.r
	start := len(g.out)
	selfClose := r.Bool()
	var head, repl, name string
	props := map[string]ExpVal{}
	str := func(s string) ExpVal { return ExpVal{Kind: "string", S: s} }
	numVal := func(s string) ExpVal {
		if strings.Contains(s, ".") {
			f, _ := strconv.ParseFloat(s, 64)
			return ExpVal{Kind: "float", F: f}
		}
		i, _ := strconv.Atoi(s)
		return ExpVal{Kind: "int", I: i}
	}
	switch r.Intn(4) {
	case 0:
		name = "select"
		cases := []string{"m", "f", "nb", "日", "x1"}
		boolean := r.Chance(1, 6)
		if boolean {
			// a boolean written the way the dialogue displays it ({$flag} gives True / False): the case of
			// the same spelling is chosen and % stands for that spelling
			cases = []string{"True", "False"}
			g.feat("replacement:select-on-boolean")
		}
		texts := map[string]string{}
		var b strings.Builder
		val := cases[r.Intn(len(cases))]
		for _, cs := range cases {
			if cs == val || r.Bool() {
				t := r.Pick("he", "she", "they", "% one", "ça", "[%]", "")
				texts[cs] = t
				props[cs] = str(t)
				b.WriteString(" " + cs + "=" + quoteProp(t))
			}
		}
		head = "select value=" + val + b.String()
		props["value"] = str(val)
		if boolean {
			props["value"] = ExpVal{Kind: "bool", B: val == "True"}
		}
		repl = strings.ReplaceAll(texts[val], "%", val)
		g.feat("replacement:select")
	case 1:
		name = "plural"
		val := r.Pick("0", "1", "2", "11", "21", "1.0", "1.5", "100")
		if r.Chance(1, 3) {
			val = randomDecimal(r)
			if f, _ := strconv.ParseFloat(val, 64); f < 0.001 {
				val = "3" + val // tiny values would be displayed with an exponent, which nothing specifies
			}
			g.feat("replacement:plural:random-decimal")
		}
		one, other := r.Pick("% apple", "une pomme", "%"), r.Pick("% apples", "des pommes", "%s")
		head = "plural value=" + val + " one=" + quoteProp(one) + " other=" + quoteProp(other)
		props["value"], props["one"], props["other"] = numVal(val), str(one), str(other)
		chosen := other
		if val == "1" {
			chosen = one
		}
		disp := val
		if f, err := strconv.ParseFloat(val, 64); err == nil && strings.Contains(val, ".") {
			// a decimal value is shown in its display form
			if f == float64(int(f)) {
				disp = strconv.Itoa(int(f))
			} else {
				disp = strconv.FormatFloat(f, 'f', -1, 64)
			}
		}
		repl = strings.ReplaceAll(chosen, "%", disp)
		g.feat("replacement:plural:" + map[bool]string{true: "one", false: "other"}[val == "1"])
	case 2:
		name = "ordinal"
		val := r.Pick("1", "2", "3", "4", "11", "12", "13", "21", "22", "23", "101", "111", "112", "113", "0", "10")
		n, _ := strconv.Atoi(val)
		forms := map[string]string{"one": "%st", "two": "%nd", "few": "%rd", "other": "%th"}
		key := "other"
		switch {
		case n%10 == 1 && n%100 != 11:
			key = "one"
		case n%10 == 2 && n%100 != 12:
			key = "two"
		case n%10 == 3 && n%100 != 13:
			key = "few"
		}
		head = "ordinal value=" + val + ` one="%st" two="%nd" few="%rd" other="%th"`
		props["value"] = numVal(val)
		for k, v := range forms {
			props[k] = str(v)
		}
		repl = strings.ReplaceAll(forms[key], "%", val)
		g.feat("replacement:ordinal:" + key)
		if n%100 >= 11 && n%100 <= 13 {
			g.feat("replacement:ordinal:teens")
		}
	default:
		name = "nomarkup"
		head = "nomarkup"
		g.feat("replacement:nomarkup")
	}
	if selfClose {
		g.src.WriteString("[" + head + g.ws() + "/]")
		g.attrs = append(g.attrs, ExpAttr{Name: name, Pos: start, Len: 0, Props: props})
		if name == "nomarkup" {
			repl = ""
		}
		g.out = append(g.out, []rune(repl)...)
		g.feat("replacement-self-closing")
	} else {
		inner := r.Pick("raw", "[b]not a marker[/b]", "x [i] y", "été 日本", "", "a  b")
		g.src.WriteString("[" + head + "]" + inner + "[/" + name + "]")
		if name == "nomarkup" {
			repl = inner
		}
		g.out = append(g.out, []rune(repl)...)
		g.attrs = append(g.attrs, ExpAttr{Name: name, Pos: start, Len: len(g.out) - start, Props: props})
		g.feat("replacement-closed-by-name")
	}
	g.swallowNext = false
	g.markerWritten()
}

// Markup generates one line.
func Markup(r *core.Rand) MarkupCase {
	g := &mkGen{r: r, feats: map[string]bool{}, usedNames: map[string]int{}}
	prefixLen := 0
	hasPrefix := false
	if r.Chance(1, 6) {
		name := r.Pick("Mae", "Ünï", "日本", "Bob Smith", "x")
		sep := r.Pick(": ", ":", ":  ")
		g.emitText(name + sep)
		prefixLen = len([]rune(name + sep))
		hasPrefix = true
		g.feat("character-prefix")
		if len([]rune(name)) != len(name) {
			g.feat("character-prefix-multi-byte")
		}
		// what follows the prefix starts with a non-blank character or is an ordinary marker
		g.emitText(r.Pick("so", "é", "x"))
	}
	n := r.Range(1, 12)
	if r.Chance(1, 40) {
		// a long line: dozens to hundreds of pieces (more markers and characters than any fixed-size buffer)
		n = r.Range(60, 400)
		g.feat("long-line")
	}
	for i := 0; i < n; i++ {
		w := []int{30, 8, 16, 14, 4, 12, 10}
		if len(g.open) == 0 {
			w[3], w[4] = 0, 0
		}
		if len(g.open) >= 3 {
			w[2] = 0
		}
		if g.afterEscape {
			w[5] = 0 // open area avoided: an escaped bracket directly before a self-closing marker
		}
		if g.swallowNext {
			// open area avoided: a marker directly after a swallowing marker
			w[2], w[3], w[4], w[5], w[6] = 0, 0, 0, 0, 0
		}
		switch r.PickW(w...) {
		case 0:
			g.chunk()
		case 1:
			e := r.Pick(`\[`, `\]`)
			g.src.WriteString(e)
			g.out = append(g.out, rune(e[1]))
			g.afterEscape = true
			g.swallowNext = false
			g.feat("escaped-bracket")
		case 2:
			g.openMarker()
		case 3:
			g.closeByName()
		case 4:
			g.closeAll()
		case 5:
			g.selfClosing()
		case 6:
			if len(g.open) == 0 {
				g.replacement()
			} else {
				g.chunk()
			}
		}
	}
	// every marker gets closed
	for len(g.open) > 0 {
		if r.Chance(1, 3) {
			g.closeAll()
		} else {
			g.closeByName()
		}
	}
	if r.Chance(1, 4) {
		g.emitText(r.Pick(" ", "  ", "\t", " "))
		g.feat("trailing-whitespace")
	}
	src := g.src.String()
	if r.Chance(1, 5) && !hasPrefix {
		// leading white space: the marker rules above were computed without it, so it is only
		// added when the line does not start with a marker
		if !strings.HasPrefix(src, "[") {
			pad := r.Pick(" ", "  ")
			src = pad + src
			g.out = append([]rune(pad), g.out...)
			for i := range g.attrs {
				g.attrs[i].Pos += len([]rune(pad))
			}
			prefixLen = 0
			g.feat("leading-whitespace")
		}
	}
	// final trim: shift and clip the ranges
	lead := 0
	for lead < len(g.out) && unicode.IsSpace(g.out[lead]) {
		lead++
	}
	end := len(g.out)
	for end > lead && unicode.IsSpace(g.out[end-1]) {
		end--
	}
	text := g.out[lead:end]
	clip := func(x int) int {
		x -= lead
		if x < 0 {
			return 0
		}
		if x > len(text) {
			return len(text)
		}
		return x
	}
	mc := MarkupCase{Src: src, Text: string(text)}
	for _, a := range g.attrs {
		s, e := clip(a.Pos), clip(a.Pos+a.Len)
		if s != a.Pos-lead || e != a.Pos+a.Len-lead {
			g.feat("range-clipped-by-trim")
		}
		a.Pos, a.Len = s, e-s
		a.Enclosed = string(text[s:e])
		if a.Props == nil {
			a.Props = map[string]ExpVal{}
		}
		mc.Attrs = append(mc.Attrs, a)
	}
	if hasPrefix {
		// the character attribute covers the prefix as it stands in the returned text
		t := string(text)
		idx := strings.Index(t, ":")
		name := t[:idx]
		l := len([]rune(name)) + 1
		rest := []rune(t)[l:]
		for len(rest) > 0 && unicode.IsSpace(rest[0]) {
			l++
			rest = rest[1:]
		}
		_ = prefixLen
		mc.Attrs = append(mc.Attrs, ExpAttr{Name: "character", Pos: 0, Len: l, Props: map[string]ExpVal{"name": {Kind: "string", S: name}}, Enclosed: string([]rune(t)[:l])})
	}
	for f := range g.feats {
		mc.Features = append(mc.Features, f)
	}
	if len(mc.Attrs) >= 2 {
		for i := range mc.Attrs {
			for j := i + 1; j < len(mc.Attrs); j++ {
				a, b := mc.Attrs[i], mc.Attrs[j]
				if a.Pos < b.Pos+b.Len && b.Pos < a.Pos+a.Len {
					mc.Features = append(mc.Features, "two-ranges-intersect")
					i = len(mc.Attrs)
					break
				}
			}
		}
	}
	mc.ScriptSafe = !g.backslash && !strings.HasPrefix(src, `\`) && !strings.HasPrefix(src, " ") && !strings.HasPrefix(src, "\t") &&
		!strings.ContainsAny(src, "#{<") && !strings.Contains(src, "//") && !strings.HasPrefix(src, "->") && !strings.HasPrefix(src, "-") && !strings.HasPrefix(src, "=") && strings.TrimSpace(src) != ""
	return mc
}

var hostileTokens = []string{
	"[", "[", "]", "]", "/", "/", "=", "\"", "\\", ":", " ", " ", "\t", "a", "b", "x1", "é", "日", "😀", "\xff", "\xe3\x81", "\x00", "\xc3",
	"select", "plural", "ordinal", "nomarkup", "value", "one", "other", "trimwhitespace", "true", "false", "character", "name",
	"[nomarkup]\xe3\x81", "[nomarkup]\xff\xfe\xfd", "[nomarkup]é\xc3",
	"[select value=a a=\"%\\\\\"/]", "[plural value=1 one=\"\\\\%\" other=\"%\\\\\"/]", "[ordinal value=2 two=\"%\\\\\" other=\"\\\\\"/]", "[select value=% %=\"%%\"/]",
	"\\[[b/] x", "\\][pause/] and then", "\\[[b/]  y", "x \\[[wave/] z",
	// integer values at and beyond the edges of the integer types (short, so that the 64-byte cut keeps them whole)
	"[ordinal value=9223372036854775808 other=\"x\"/]", "[plural value=18446744073709551615 other=\"b\"/]",
	"[ordinal value=9223372036854775807 other=\"x\"/]", "[ordinal value=4294967296 other=\"%th\"/]",
	"[a p=9223372036854775808/]", "[plural value=99999999999999999999 other=\"b\"/]", "[ordinal value=2147483648 other=\"%\"/]",
	"[ordinal value=18446744073709551613 few=\"x\"/]",
	"[select value=a a=\"\"/]", "[plural value=1.5 other=\"%\"/]", "[ordinal value=1 /]", "[select a=1/]", "[plural value=x one=\"a\"/]",
	"0", "12", "1.5", ".", "%", "[/]", "[/", "/]", "[a]", "[/a]", "[b/]", "[nomarkup]", "[/nomarkup]", "[select value=", "\\[", "\\]", "٣", "  ", "　", " ",
	// a full-width colon (which is no speaker separator), speaker prefixes, explicit character markers
	"：", "A：", "旁白：", "好", "Mae: ", "Ünï: ", "[character name=\"Mae\"/]", "[character name=\"Mae\"]", "[/character]",
	// the names of the replacement markers, and ordinary names, in other letter cases
	"[NoMarkup]", "[/NoMarkup]", "[NOMARKUP]", "[Plural value=1 one=\"one\"]", "[Select value=a a=\"x\"/]", "[ORDINAL value=1 one=\"st\"/]", "[/Plural]",
	"NoMarkup", "Select", "[Wave]", "[/wave]", "[wave]", "[/Wave]", "[WAVE/]", "[A]", "[/A]",
	// replacement markers whose text is far longer than their source, and property values with many fraction digits
	"[plural value=1234567890 other=\"%%%%%%%%%%\"/]", "[select value=a a=\"%%%% and %%%% and %%%% and %%%% and %%%%\"/] ", " and then [b]some[/b] more ", "[ordinal value=1234567 other=\"%%%%%%%%\"/] x [nomarkup]text",
	"[a p=1.00000000000000000001/]", "[wave size=0.000000000000000000000001]", "[plural value=1.0000000000000000000000 one=\"x\" other=\"y\"/]", "[a p=12345678901234567890.5/]", "[b trimwhitespace=maybe/]",
}

// HostileMarkup assembles a string from marker fragments and hostile bytes.
func HostileMarkup(r *core.Rand) string { return HostileMarkupN(r, 14, 64) }

// HostileMarkupN assembles up to maxTokens fragments and cuts the result at maxLen bytes.
func HostileMarkupN(r *core.Rand, maxTokens, maxLen int) string {
	var b strings.Builder
	for k := r.Range(0, maxTokens); k > 0; k-- {
		b.WriteString(hostileTokens[r.Intn(len(hostileTokens))])
	}
	s := b.String()
	if len(s) > maxLen {
		s = s[:maxLen]
	}
	return s
}

// SplitBytesMarkup writes multi-byte characters piecewise through consecutive [nomarkup] sections (raw bytes
// reach the text; a piece alone is invalid UTF-8, the pieces together are one character), with ordinary
// markers opened, closed and self-closed between the pieces: the number of characters of the text built so
// far goes DOWN when the last piece of a character arrives.
func SplitBytesMarkup(r *core.Rand) string {
	var b strings.Builder
	open := []string{}
	isOpen := func(n string) bool {
		for _, o := range open {
			if o == n {
				return true
			}
		}
		return false
	}
	between := func() {
		switch r.Intn(8) {
		case 0, 1:
			n := r.Pick("x", "y", "z", "日")
			if !isOpen(n) {
				open = append(open, n)
				b.WriteString("[" + n + "]")
			}
		case 2:
			if len(open) > 0 {
				k := r.Intn(len(open))
				b.WriteString("[/" + open[k] + "]")
				open = append(open[:k], open[k+1:]...)
			}
		case 3:
			b.WriteString(r.Pick("[b/]", "[pause /]", "[b trimwhitespace=false/]"))
		case 4:
			b.WriteString(r.Pick("ab", "é", " ", "  ", "c d"))
		case 5:
			if len(open) > 0 {
				b.WriteString("[/]")
				open = open[:0]
			}
		}
	}
	if r.Chance(1, 4) {
		b.WriteString(r.Pick(" ", "Mae: ", "ab", "\t"))
	}
	for k := r.Range(1, 4); k > 0; k-- {
		ch := r.Pick("€", "é", "😀", "日", "ж", "𝔘", "\xff\xfe", "한")
		bs := []byte(ch)
		for len(bs) > 0 {
			n := 1 + r.Intn(len(bs))
			if len(bs) > 1 && r.Chance(2, 3) {
				n = 1 + r.Intn(len(bs)-1) // a proper piece
			}
			between()
			b.WriteString("[nomarkup]" + string(bs[:n]) + "[/nomarkup]")
			bs = bs[n:]
		}
		between()
	}
	if r.Chance(1, 3) {
		b.WriteString(r.Pick("abc", " ", " tail", "é"))
	}
	for len(open) > 0 {
		b.WriteString("[/" + open[len(open)-1] + "]")
		open = open[:len(open)-1]
	}
	if r.Chance(1, 4) {
		b.WriteString(r.Pick(" ", "x", "  "))
	}
	return b.String()
}

// Truncation returns a prefix of a well-formed line cut at a PRNG byte offset.
func Truncation(r *core.Rand) string {
	mc := Markup(r)
	if len(mc.Src) == 0 {
		return ""
	}
	return mc.Src[:r.Intn(len(mc.Src)+1)]
}
