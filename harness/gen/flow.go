package gen

import (
	"fmt"
	"strconv"
	"strings"
	"unicode"

	"github.com/remieven/ysgo/verifharness/core"
	"github.com/remieven/ysgo/verifharness/hast"
)

// FlowCfg steers the flow-program generator.
type FlowCfg struct {
	MaxNodes   int
	MaxStmts   int // per program
	MaxDepth   int
	MaxReaders int
	Probes     bool
	Cmds       bool
	Tracking   bool // tracking headers on a random subset of nodes
	WStop      int  // weight of <<stop>>
	WJump      int
	WOptions   int
	WIf        int
	Unicode    bool // multi-byte identifiers
	VisitLines bool // every node starts with a line printing all visit counts
	Fuel       int  // upper bound of backward jumps
	NoSets     bool
	Markup     bool // some line texts carry markup
	Random     bool // use the random built-ins (programs are then only compared with themselves)
	BadJumps   int  // percent of jumps that name a node that does not exist (a fault)
	// StartNotFirst: one program in four has a node titled "Start" that is NOT the first node (the dialogue
	// begins with the first node of the first reader, whatever it is called).
	StartNotFirst bool
	// DupTitles: one program in five ends with an extra node whose title repeats an earlier one (other body,
	// other tracking header). The first definition is the node of that name; the extra one is never entered.
	DupTitles bool
	// EmptyTitle: one program in eight gives its first node an empty title ("title:" with nothing after it),
	// which the library accepts; no jump can name it, but snapshots and visit counts do.
	EmptyTitle bool
}

func DefaultFlow() FlowCfg {
	return FlowCfg{MaxNodes: 5, MaxStmts: 45, MaxDepth: 5, MaxReaders: 3, Probes: true, Cmds: true, Tracking: true,
		WStop: 2, WJump: 6, WOptions: 16, WIf: 12, Unicode: true, Fuel: 6}
}

type flowGen struct {
	r       *core.Rand
	cfg     FlowCfg
	sc      *Scope
	nextID  int
	budget  int
	titles  []string
	cur     int // index of the node being generated
	destVar bool
}

var asciiTitles = []string{"Start", "Alpha", "Beta", "Gamma", "Delta", "Omega"}
var uniTitles = []string{"Début", "Nœud", "ノード", "Ünï", "Крок", "Ωmega"}

func (g *flowGen) id() int { g.nextID++; return g.nextID }

// Flow generates a program that is very likely error-free and always terminates.
func Flow(r *core.Rand, cfg FlowCfg) *hast.Program {
	g := &flowGen{r: r, cfg: cfg}
	g.sc = &Scope{Vars: map[hast.Ty][]string{}, Probes: cfg.Probes, NextID: &g.nextID, Builtin: true, Random: cfg.Random}
	n := r.Range(1, cfg.MaxNodes)
	for i := 0; i < n; i++ {
		t := asciiTitles[i%len(asciiTitles)]
		if cfg.Unicode && r.Chance(1, 4) {
			t = uniTitles[i%len(uniTitles)]
		}
		if i >= len(asciiTitles) {
			t += strconv.Itoa(i)
		}
		if cfg.Random {
			t = "N" + strconv.Itoa(i+1)
		}
		g.titles = append(g.titles, t)
	}
	if !cfg.Random && n >= 2 && r.Chance(1, 6) {
		// two titles that differ only by the case of their letters are two nodes
		j := r.Range(0, n-2)
		k := r.Range(j+1, n-1)
		if v := swapCase(g.titles[j]); v != g.titles[j] {
			g.titles[k] = v
		}
	}
	if cfg.StartNotFirst && !cfg.Random && n >= 2 && r.Chance(1, 4) {
		k := r.Range(1, n-1)
		g.titles[0], g.titles[k] = g.titles[k], g.titles[0]
	}
	if cfg.EmptyTitle && !cfg.Random && r.Chance(1, 8) {
		g.titles[0] = ""
	}
	g.sc.Visited = append(append([]string{}, g.titles...), "Nowhere")
	if cfg.VisitLines {
		// names that are ALMOST a title - a blank before or after it, the other letter case - are not nodes
		isTitle := map[string]bool{}
		for _, t := range g.titles {
			isTitle[t] = true
		}
		t := g.titles[r.Intn(n)]
		for _, v := range []string{" " + t, t + " ", swapCase(t)} {
			if !isTitle[v] && r.Bool() {
				g.sc.Visited = append(g.sc.Visited, v)
			}
		}
	}
	g.budget = r.Range(cfg.MaxStmts/3+1, cfg.MaxStmts)

	p := &hast.Program{}
	// variables, declared at the very start of the first node
	names := map[hast.Ty][]string{hast.TNum: {"n1", "n2"}, hast.TBool: {"b1", "b2"}, hast.TStr: {"s1", "s2"}}
	if cfg.Unicode && r.Chance(1, 3) {
		names[hast.TNum][1] = "número"
		names[hast.TStr][1] = "文字"
	}
	var decl []*hast.Stmt
	if !cfg.NoSets {
		for _, t := range []hast.Ty{hast.TNum, hast.TBool, hast.TStr} {
			for _, v := range names[t] {
				var init *hast.Expr
				switch t {
				case hast.TNum:
					init = g.sc.numLit(r)
				case hast.TBool:
					init = hast.Bool(r.Bool())
				default:
					init = g.sc.strLit(r)
				}
				if r.Bool() {
					st := &hast.Stmt{K: hast.SDeclare, Var: v, X: init, ID: g.id()}
					if r.Chance(1, 4) {
						st.AsType = [...]string{"number", "bool", "string"}[t]
					}
					decl = append(decl, st)
				} else {
					decl = append(decl, &hast.Stmt{K: hast.SSet, Var: v, Op: "=", X: init, ID: g.id()})
				}
				g.sc.Vars[t] = append(g.sc.Vars[t], v)
			}
		}
	}
	// The fuel variable bounds backward jumps. It is initialised in the start node,
	// which is never a jump target, so no loop can refill it.
	fuel := cfg.Fuel
	if fuel <= 0 {
		fuel = 4
	}
	decl = append(decl, &hast.Stmt{K: hast.SSet, Var: "fuel", Op: "=", X: hast.Num(strconv.Itoa(fuel)), ID: g.id()})
	if n > 1 && !cfg.NoSets {
		// a variable that holds a jump target: the same <<jump {$dest}>> statement may go to different
		// nodes at different times
		decl = append(decl, &hast.Stmt{K: hast.SSet, Var: "dest", Op: "=", X: hast.Str(g.titles[r.Range(1, n-1)]), ID: g.id()})
		g.destVar = true
	}

	readers := r.Range(1, cfg.MaxReaders)
	if readers > n {
		readers = n
	}
	p.Readers = readers
	for i := 0; i < n; i++ {
		g.cur = i
		node := &hast.Node{Title: g.titles[i]}
		if cfg.Tracking {
			switch r.Intn(5) {
			case 0:
				node.Headers = append(node.Headers, [2]string{"tracking", "never"})
			case 1:
				node.Headers = append(node.Headers, [2]string{"tracking", "always"})
			case 2:
				// any other value is not "never": the node is counted
				if r.Chance(1, 2) {
					node.Headers = append(node.Headers, [2]string{"tracking", r.Pick("sometimes", "", "Always", "Never", "nevermore", "yes")})
				}
			}
		}
		if r.Chance(1, 3) {
			node.Headers = append(node.Headers, [2]string{r.Pick("tags", "position", "colorID"), r.Pick("a b", "12,-7", "0", "")})
		}
		per := g.budget / (n - i)
		if per < 1 {
			per = 1
		}
		b := g.budget
		g.budget = per
		var body []*hast.Stmt
		if i == 0 {
			body = append(body, decl...)
		}
		if cfg.VisitLines {
			body = append(body, g.visitLine())
		}
		body = append(body, g.body(0)...)
		node.Body = body
		g.budget = b - per + g.budget
		p.Nodes = append(p.Nodes, node)
	}
	dup := (*hast.Node)(nil)
	if cfg.DupTitles && r.Chance(1, 5) {
		orig := p.Nodes[r.Intn(n)]
		dup = &hast.Node{Title: orig.Title, Body: []*hast.Stmt{{K: hast.SLine, Parts: []hast.Part{hast.Lit("second definition of " + orig.Title + ": never entered")}, ID: g.id()}}}
		if orig.Tracking() == "never" {
			dup.Headers = append(dup.Headers, [2]string{"tracking", "always"})
		} else {
			dup.Headers = append(dup.Headers, [2]string{"tracking", "never"})
		}
	}
	// reader assignment: contiguous, every reader gets at least one node, node 0 in reader 0
	cuts := map[int]bool{}
	for len(cuts) < readers-1 {
		cuts[r.Range(1, n-1)] = true
	}
	rd := 0
	for i, node := range p.Nodes {
		if cuts[i] {
			rd++
		}
		node.Reader = rd
	}
	if dup != nil {
		dup.Reader = rd
		if r.Bool() && readers < 8 {
			// in a reader of its own
			dup.Reader = rd + 1
			p.Readers++
		}
		p.Nodes = append(p.Nodes, dup)
	}
	return p
}

// swapCase swaps the case of every letter.
func swapCase(s string) string {
	rs := []rune(s)
	for i, c := range rs {
		if u := unicode.ToUpper(c); u != c {
			rs[i] = u
		} else {
			rs[i] = unicode.ToLower(c)
		}
	}
	return string(rs)
}

func (g *flowGen) visitLine() *hast.Stmt {
	parts := []hast.Part{hast.Lit(fmt.Sprintf("V%d", g.id()))}
	for _, t := range g.sc.Visited {
		parts = append(parts, hast.Lit(" "), hast.Inl(hast.Call("visited_count", hast.Str(t))), hast.Lit("/"), hast.Inl(hast.Call("visited", hast.Str(t))))
	}
	return &hast.Stmt{K: hast.SLine, Parts: parts, ID: g.id()}
}

func (g *flowGen) parts(prefix string) []hast.Part {
	r := g.r
	id := g.id()
	if !g.cfg.NoSets && prefix == "L" && r.Chance(1, 50) {
		// a line made of inline expressions only, all of which render as nothing: an element with an empty text
		if r.Bool() {
			return []hast.Part{hast.Inl(hast.Str(""))}
		}
		return []hast.Part{hast.Inl(hast.Str("")), hast.Inl(hast.Bin("+", hast.Str(""), hast.Str("")))}
	}
	parts := []hast.Part{hast.Lit(fmt.Sprintf("%s%d", prefix, id))}
	if g.cfg.NoSets {
		if r.Chance(1, 3) {
			parts = append(parts, hast.Lit(" "+r.Pick("hello", "wörld", "日本語", "a > b", "x }")))
		}
		return parts
	}
	for k := r.PickW(60, 28, 12); k > 0; k-- {
		t := hast.Ty(r.Intn(3))
		parts = append(parts, hast.Lit(r.Pick(" ", " - ", " = ", " é ")), hast.Inl(g.sc.Expr(r, t, r.Intn(3))))
	}
	if r.Chance(1, 5) {
		parts = append(parts, hast.Lit(r.Pick(" end", " fin", " 終")))
	}
	if r.Chance(1, 60) {
		// a physical line of 2-10 KiB (longer than the usual 4 KiB I/O buffer)
		parts = append(parts, hast.Lit(strings.Repeat(" lorem ipsum", r.Range(200, 900))))
	}
	if r.Chance(1, 12) {
		// the text ends with a colon (a speaker prefix with nothing after it), possibly followed by an
		// expression that renders as nothing
		parts = append(parts, hast.Lit(":"))
		if r.Bool() {
			parts = append(parts, hast.Lit(" "), hast.Inl(hast.Str("")))
		}
		return parts
	}
	if g.cfg.Markup && r.Chance(1, 2) {
		parts = append(parts, hast.Lit(r.Pick(" [b]bold[/b]", " [wave a=1 /]x", " [a][c]y[/a]z[/c]", " [plural value=2 one=\"% cat\" other=\"% cats\" /]", " [nomarkup][raw][/nomarkup]")))
	}
	return parts
}

func (g *flowGen) tags() []string {
	var t []string
	for k := g.r.PickW(75, 18, 7); k > 0; k-- {
		t = append(t, g.r.Pick("tag", "line:a1b2", "étiquette", "t2", "x-y", "loud"))
	}
	return t
}

func (g *flowGen) cond(first bool) *hast.Expr {
	sc := *g.sc
	sc.Probes = g.cfg.Probes && first // logged probes only where evaluation is certain
	if g.cfg.NoSets {
		return hast.Bool(g.r.Bool())
	}
	return sc.Expr(g.r, hast.TBool, g.r.Range(0, 2))
}

func (g *flowGen) jump(target int) []*hast.Stmt {
	r := g.r
	st := &hast.Stmt{K: hast.SJump, ID: g.id()}
	title := g.titles[target]
	if g.cfg.BadJumps > 0 && r.Intn(100) < g.cfg.BadJumps {
		bad := "Nowhere"
		if r.Chance(1, 2) {
			// almost the title of a node: another letter case, or one more character
			alt := swapCase(title)
			if r.Bool() {
				alt = title + "x"
			}
			bad = alt
			for _, t := range g.titles {
				if t == alt || alt == "" {
					bad = "Nowhere"
				}
			}
		}
		title = bad
		target = len(g.titles) // treated as a forward jump: no fuel guard needed, it fails
	}
	if g.destVar && r.Chance(1, 3) {
		// through the variable (dynamic target: guarded by fuel like a backward jump)
		st.X = hast.Var("dest")
		st.Target = ""
		target = 0
		if r.Chance(1, 4) {
			// retarget right before jumping; otherwise the variable keeps whatever it was last set to
			return append([]*hast.Stmt{{K: hast.SSet, Var: "dest", Op: "=", X: hast.Str(g.titles[r.Range(1, len(g.titles)-1)]), ID: g.id()}}, g.guard(st)...)
		}
		return g.guard(st)
	}
	if g.cfg.Random && len(g.titles) > 2 && r.Chance(1, 2) {
		// a random jump target among the nodes 2..k (never the start node, which refills the fuel)
		st.X = hast.Bin("+", hast.Str("N"), hast.Call("string", hast.Call("random_range", hast.Num("2"), hast.Num(strconv.Itoa(len(g.titles))))))
		target = 0 // may go backwards: guarded by fuel
	} else if r.Chance(1, 3) {
		// by expression
		switch r.Intn(3) {
		case 0:
			st.X = hast.Str(title)
		case 1:
			rs := []rune(title)
			k := r.Range(0, len(rs))
			st.X = hast.Bin("+", hast.Str(string(rs[:k])), hast.Str(string(rs[k:])))
		default:
			st.X = hast.Call("pure", hast.Str(title))
		}
	} else {
		st.Target = title
	}
	if target > g.cur {
		return []*hast.Stmt{st}
	}
	// backward or self jump: guarded by fuel
	return g.guard(st)
}

func (g *flowGen) guard(st *hast.Stmt) []*hast.Stmt {
	return []*hast.Stmt{{K: hast.SIf, ID: g.id(), Clauses: []*hast.Clause{{
		Cond: hast.Bin(">", hast.Var("fuel"), hast.Num("0")),
		Body: []*hast.Stmt{{K: hast.SSet, Var: "fuel", Op: "-=", X: hast.Num("1"), ID: g.id()}, st},
	}}}}
}

func (g *flowGen) set() *hast.Stmt {
	r := g.r
	t := hast.Ty(r.Intn(3))
	vs := g.sc.Vars[t]
	v := vs[r.Intn(len(vs))]
	st := &hast.Stmt{K: hast.SSet, Var: v, Op: "=", ID: g.id()}
	switch t {
	case hast.TNum:
		st.Op = r.Pick("=", "=", "+=", "-=", "*=", "/=", "%=")
	case hast.TStr:
		st.Op = r.Pick("=", "+=")
	}
	st.X = g.sc.Expr(r, t, r.Range(0, 2))
	if t == hast.TStr {
		// strings must not feed on strings: `$s = $s + $s`, `$a += $b` with `$b += $a` elsewhere grow
		// exponentially in a loop (gigabytes within the fuel bound). At most one string variable on the right
		// of `=`, none on the right of `+=`: growth stays linear.
		strs := map[string]bool{}
		for _, n := range g.sc.Vars[hast.TStr] {
			strs[n] = true
		}
		limit := 1
		if st.Op == "+=" {
			limit = 0
		}
		for tries := 0; countVars(st.X, strs) > limit; tries++ {
			if tries > 8 {
				st.X = g.sc.strLit(r)
				break
			}
			st.X = g.sc.Expr(r, t, r.Range(0, 1))
		}
	}
	return st
}

// countVars counts the references to variables of the given set in an expression.
func countVars(e *hast.Expr, set map[string]bool) int {
	if e == nil {
		return 0
	}
	n := 0
	if e.K == hast.EVar && set[e.Text] {
		n++
	}
	for _, a := range e.Args {
		n += countVars(a, set)
	}
	return n
}

func (g *flowGen) command() *hast.Stmt {
	r := g.r
	st := &hast.Stmt{K: hast.SCommand, Name: r.Pick("act", "emote", "play", "fx"), ID: g.id()}
	st.Args = append(st.Args, hast.CmdArg{Word: "c" + strconv.Itoa(g.id())})
	for k := r.Intn(3); k > 0; k-- {
		if r.Chance(1, 3) {
			st.Args = append(st.Args, hast.CmdArg{X: g.sc.Expr(r, hast.Ty(r.Intn(3)), 1)})
		} else {
			st.Args = append(st.Args, hast.CmdArg{Word: r.Pick("left", "true", "false", "3", "-2", "0.5", "Mae", "dérive")})
		}
	}
	return st
}

func (g *flowGen) body(depth int) []*hast.Stmt {
	r := g.r
	var body []*hast.Stmt
	n := r.Range(1, 6)
	if depth > 0 && r.Chance(1, 6) {
		n = 0
	}
	for i := 0; i < n && g.budget > 0; i++ {
		g.budget--
		wOpt, wIf := g.cfg.WOptions, g.cfg.WIf
		if depth >= g.cfg.MaxDepth {
			wOpt, wIf = 0, 0
		}
		if len(body) > 0 && body[len(body)-1].K == hast.SOptions {
			wOpt = 0 // two adjacent groups would be one group
		}
		wSet, wCall, wCmd := 12, 5, 7
		if g.cfg.NoSets {
			wSet = 0
		}
		if !g.cfg.Probes {
			wCall = 0
		}
		if !g.cfg.Cmds {
			wCmd = 0
		}
		wDest := 0
		if g.destVar {
			wDest = 4
		}
		switch r.PickW(30, wOpt, wIf, wSet, wCall, wCmd, g.cfg.WJump, g.cfg.WStop, wDest) {
		case 0:
			body = append(body, &hast.Stmt{K: hast.SLine, Parts: g.parts("L"), Tags: g.tags(), ID: g.id()})
		case 1:
			st := &hast.Stmt{K: hast.SOptions, ID: g.id()}
			for k := r.Range(1, 4); k > 0; k-- {
				o := &hast.Option{Parts: g.parts("O"), Tags: g.tags()}
				if r.Chance(1, 3) {
					// (logged probes here too: every condition of a group is evaluated exactly once, in order,
					// when the group is shown)
					o.Cond = g.cond(true)
				}
				if !r.Chance(1, 4) {
					o.Body = g.body(depth + 1)
				}
				st.Options = append(st.Options, o)
			}
			body = append(body, st)
		case 2:
			st := &hast.Stmt{K: hast.SIf, ID: g.id()}
			st.Clauses = append(st.Clauses, &hast.Clause{Cond: g.cond(true), Body: g.body(depth + 1)})
			for k := r.PickW(55, 30, 15); k > 0; k-- {
				// elseif conditions carry logged probes too: a clause after the one that is taken must not be evaluated
				st.Clauses = append(st.Clauses, &hast.Clause{Cond: g.cond(true), Body: g.body(depth + 1)})
			}
			if r.Chance(1, 2) {
				st.Clauses = append(st.Clauses, &hast.Clause{Body: g.body(depth + 1)})
			}
			body = append(body, st)
		case 3:
			body = append(body, g.set())
		case 4:
			t := hast.Ty(r.Intn(3))
			body = append(body, &hast.Stmt{K: hast.SCall, ID: g.id(),
				X: hast.Call("cap", hast.Num(strconv.Itoa(g.id())), g.sc.Expr(r, t, r.Range(0, 2)))})
		case 5:
			body = append(body, g.command())
		case 6:
			if len(g.titles) > 1 {
				body = append(body, g.jump(r.Range(1, len(g.titles)-1))...)
			}
		case 7:
			body = append(body, &hast.Stmt{K: hast.SStop, ID: g.id()})
		case 8:
			body = append(body, &hast.Stmt{K: hast.SSet, Var: "dest", Op: "=", X: hast.Str(g.titles[r.Range(1, len(g.titles)-1)]), ID: g.id()})
		}
	}
	return body
}

// Shapes counts, statically, the program shapes the properties' texts name.
func Shapes(p *hast.Program) map[string]int {
	m := map[string]int{}
	if p.Readers > 1 {
		m["multi-reader"] = 1
	}
	var walk func(body []*hast.Stmt, path string)
	walk = func(body []*hast.Stmt, path string) {
		for i, s := range body {
			last := i == len(body)-1
			switch s.K {
			case hast.SOptions:
				if len(path) >= 2 && path[len(path)-1] == 'i' && path[len(path)-2] == 'o' {
					m["options-in-if-in-options"]++
				}
				if last && path != "" && path[len(path)-1] == 'i' {
					m["if-body-ends-in-option-group"]++
				}
				if last && path == "" {
					m["node-ends-in-option-group"]++
				}
				for _, o := range s.Options {
					if len(o.Body) == 0 {
						m["empty-option-body"]++
					}
					walk(o.Body, path+"o")
				}
			case hast.SIf:
				for _, c := range s.Clauses {
					walk(c.Body, path+"i")
				}
			case hast.SJump:
				if !last {
					m["jump-not-last"]++
				}
				if path != "" {
					m["jump-in-nested-body"]++
				}
			case hast.SStop:
				if !last {
					m["stop-not-last"]++
				}
			}
			if len(path) > m["max-static-depth"] {
				m["max-static-depth"] = len(path)
			}
		}
	}
	for _, n := range p.Nodes {
		walk(n.Body, "")
	}
	return m
}
