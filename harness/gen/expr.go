// Package gen holds the PRNG-driven generators: typed expressions, flow programs,
// line texts, markup lines, command statements, Go function signatures.
package gen

import (
	"strconv"

	"github.com/remieven/ysgo/verifharness/core"
	"github.com/remieven/ysgo/verifharness/hast"
)

// Scope lists what a generated expression may refer to.
type Scope struct {
	Vars    map[hast.Ty][]string // declared variables by type
	Probes  bool                 // p(id, v) probes allowed
	NextID  *int                 // unique id source for probes
	Visited []string             // node names for visited()/visited_count()
	Builtin bool                 // deterministic built-ins allowed
	NumLits []string
	StrLits []string
	Random  bool // the random built-ins may be used
}

var DefaultNumLits = []string{"0", "1", "2", "3", "5", "7", "10", "100", "0.5", "2.5", "1.25", "0.1", "12"}
var DefaultStrLits = []string{"a", "b", "x y", "", "héé", "日本", "}", "#h", "//c", ">>", "{", "<<", "->", "ok"}

func (s *Scope) id() int {
	*s.NextID++
	return *s.NextID
}

func (s *Scope) numLit(r *core.Rand) *hast.Expr {
	l := s.NumLits
	if l == nil {
		l = DefaultNumLits
	}
	return hast.Num(l[r.Intn(len(l))])
}

func (s *Scope) strLit(r *core.Rand) *hast.Expr {
	l := s.StrLits
	if l == nil {
		l = DefaultStrLits
	}
	return hast.Str(l[r.Intn(len(l))])
}

func (s *Scope) leaf(r *core.Rand, t hast.Ty) *hast.Expr {
	if vs := s.Vars[t]; len(vs) > 0 && r.Chance(1, 2) {
		return hast.Var(vs[r.Intn(len(vs))])
	}
	if s.Random && t == hast.TNum && r.Chance(2, 5) {
		switch r.Intn(3) {
		case 0:
			if r.Chance(1, 6) {
				// spans beyond 2^31 and 2^32 (another code path of the generator may serve them)
				if r.Bool() {
					return hast.Call("dice", hast.Num(r.Pick("4000000000", "2147483648", "9000000000000000")))
				}
				return hast.Call("random_range", hast.Neg(hast.Num("3000000000")), hast.Num(r.Pick("3000000000", "5")))
			}
			return hast.Call("dice", hast.Num(r.Pick("1", "2", "6", "20", "100")))
		case 1:
			lo := r.Range(-5, 5)
			return hast.Call("random_range", numOrNeg(lo), numOrNeg(lo+r.Range(0, 9)))
		}
		return hast.Call("random")
	}
	switch t {
	case hast.TNum:
		if len(s.Visited) > 0 && r.Chance(1, 8) {
			return hast.Call("visited_count", hast.Str(s.Visited[r.Intn(len(s.Visited))]))
		}
		return s.numLit(r)
	case hast.TBool:
		if len(s.Visited) > 0 && r.Chance(1, 8) {
			return hast.Call("visited", hast.Str(s.Visited[r.Intn(len(s.Visited))]))
		}
		return hast.Bool(r.Bool())
	default:
		return s.strLit(r)
	}
}

// Expr generates a well-typed expression of type t.
func (s *Scope) Expr(r *core.Rand, t hast.Ty, depth int) *hast.Expr {
	if depth <= 0 || r.Chance(1, 4) {
		return s.leaf(r, t)
	}
	if s.Probes && r.Chance(1, 7) {
		return hast.Call("p", hast.Num(strconv.Itoa(s.id())), s.Expr(r, t, depth-1))
	}
	switch t {
	case hast.TNum:
		switch r.Intn(10) {
		case 0:
			return hast.Neg(s.Expr(r, hast.TNum, depth-1))
		case 1:
			if s.Builtin {
				f := r.Pick("floor", "ceil", "round", "integer", "inc", "dec")
				return hast.Call(f, s.Expr(r, hast.TNum, depth-1))
			}
			fallthrough
		default:
			op := r.Pick("+", "+", "-", "-", "*", "*", "/", "%")
			return hast.Bin(op, s.Expr(r, hast.TNum, depth-1), s.Expr(r, hast.TNum, depth-1))
		}
	case hast.TBool:
		switch r.Intn(10) {
		case 0, 1:
			return hast.Not(s.Expr(r, hast.TBool, depth-1))
		case 2, 3, 4:
			op := r.Pick("<", "<=", ">", ">=")
			return hast.Bin(op, s.Expr(r, hast.TNum, depth-1), s.Expr(r, hast.TNum, depth-1))
		case 5, 6:
			op := r.Pick("==", "!=")
			tt := hast.Ty(r.Intn(3))
			return hast.Bin(op, s.Expr(r, tt, depth-1), s.Expr(r, tt, depth-1))
		default:
			op := r.Pick("and", "or", "xor")
			return hast.Bin(op, s.Expr(r, hast.TBool, depth-1), s.Expr(r, hast.TBool, depth-1))
		}
	default:
		if s.Builtin && r.Chance(1, 6) {
			// only arguments whose display form is the same in every reading of C04
			if r.Bool() {
				return hast.Call("string", s.Expr(r, hast.TBool, depth-1))
			}
			return hast.Call("string", s.numLit(r))
		}
		return hast.Bin("+", s.Expr(r, hast.TStr, depth-1), s.Expr(r, hast.TStr, depth-1))
	}
}

func numOrNeg(v int) *hast.Expr {
	if v < 0 {
		return hast.Neg(hast.Num(strconv.Itoa(-v)))
	}
	return hast.Num(strconv.Itoa(v))
}

// Count returns the number of nodes of an expression and the set of binary
// operator precedence levels it uses.
func Count(e *hast.Expr) (nodes int, levels map[int]bool) {
	levels = map[int]bool{}
	var walk func(*hast.Expr)
	walk = func(e *hast.Expr) {
		nodes++
		if e.K == hast.EBin {
			levels[hast.Prec(e.Text)] = true
		}
		for _, a := range e.Args {
			walk(a)
		}
	}
	walk(e)
	return
}
