package gen

import (
	"strings"

	"github.com/remieven/ysgo/verifharness/core"
	"github.com/remieven/ysgo/verifharness/hast"
)

// Unit is one character-level unit of line text: what is written and what must come out.
type Unit struct {
	Src, Out string
	Class    string
}

var plainClasses = map[string][]string{
	"ascii-letter": {"a", "b", "Z", "q", "m"},
	"ascii-digit":  {"0", "7", "42"},
	"ascii-punct":  {"!", "?", ".", ",", ";", "'", "\"", "(", ")", "*", "+", "=", "-", "_", "@", "%", "&", "|", "~", "^", "$", "`"},
	"colon":        {":"},
	"blank":        {" ", "  ", "\t"},
	"multibyte":    {"é", "ß", "Ω", "ж", "ñ"},
	"cjk":          {"日", "本", "語", "한"},
	"astral":       {"😀", "𝔘", "🜲"},
	"combining":    {"é", "ä"},
	"nbsp":         {" ", "　"},
	// characters that have no width and are not white space: they are part of the text wherever they stand
	"invisible":    {"\ufeff", "\u200b", "\u00ad", "\u200d", "\u2060", "\ufffd"},
	"bare-gt":      {">"},
	"bare-rbrace":  {"}"},
	"bare-lt":      {"<"},
	"bare-slash":   {"/"},
	"arrow-inside": {"->"},
}

var escapes = []struct{ src, out, class string }{
	{`\\`, `\`, "esc-backslash"}, {`\<`, "<", "esc-lt"}, {`\>`, ">", "esc-gt"}, {`\{`, "{", "esc-lbrace"}, {`\}`, "}", "esc-rbrace"},
	{`\#`, "#", "esc-hash"}, {`\/`, "/", "esc-slash"}, {`\[`, "[", "esc-lbracket"}, {`\]`, "]", "esc-rbracket"},
}

var plainClassNames = func() []string {
	var n []string
	for k := range plainClasses {
		n = append(n, k)
	}
	// stable order
	for i := range n {
		for j := i + 1; j < len(n); j++ {
			if n[j] < n[i] {
				n[i], n[j] = n[j], n[i]
			}
		}
	}
	return n
}()

// TextClasses lists every unit class (for evidence thresholds).
func TextClasses() []string {
	c := append([]string{}, plainClassNames...)
	for _, e := range escapes {
		c = append(c, e.class)
	}
	return c
}

// textUnit draws one unit. first says it is the first character of the line (after
// indentation / the option arrow); prev is the source text written so far.
func textUnit(r *core.Rand, first bool, prev string, prevBare string, allowBracketFirst bool) Unit {
	for {
		var u Unit
		if r.Chance(1, 3) {
			e := escapes[r.Intn(len(escapes))]
			u = Unit{e.src, e.out, e.class}
			if first && !allowBracketFirst && (e.class == "esc-lbracket" || e.class == "esc-rbracket") {
				continue // known finding K1: exercised by its own sub-workload
			}
		} else {
			cl := plainClassNames[r.Intn(len(plainClassNames))]
			v := plainClasses[cl]
			s := v[r.Intn(len(v))]
			u = Unit{s, s, cl}
		}
		if first {
			// what cannot start a line: indentation blanks, the option arrow, a node end, a lone '-' or '='
			// run that could be read as one, a comment
			if u.Class == "blank" || u.Class == "arrow-inside" || u.Src == "-" || u.Src == "=" {
				continue
			}
		}
		// never create "<<", "//", "->" or "===" at line start by juxtaposition of bare characters
		// (prevBare is the source of the previous unit when it was written unescaped)
		if strings.HasSuffix(prevBare, "<") && strings.HasPrefix(u.Src, "<") {
			continue
		}
		if strings.HasSuffix(prevBare, "/") && strings.HasPrefix(u.Src, "/") {
			continue
		}
		if prev == "-" && strings.HasPrefix(u.Src, ">") {
			continue
		}
		if (prev == "=" || prev == "==") && strings.HasPrefix(u.Src, "=") {
			continue
		}
		return u
	}
}

// LineText generates the parts of one line: 1-12 units with 0-4 inline expressions.
// exprs supplies the inline expressions. It returns the parts and the list of
// (position class, unit class) cells exercised.
func LineText(r *core.Rand, exprs func() *hast.Expr, allowBracketFirst bool) (parts []hast.Part, cells []string) {
	n := r.Range(1, 12)
	nx := r.PickW(40, 30, 15, 10, 5)
	exprAt := map[int]bool{}
	for i := 0; i < nx; i++ {
		exprAt[r.Intn(n+1)] = true
	}
	src := ""
	prevBare := ""
	afterExpr := false
	count := 0
	for i := 0; i <= n; i++ {
		if exprAt[i] && exprs != nil {
			parts = append(parts, hast.Inl(exprs()))
			src += "{}"
			prevBare = ""
			afterExpr = true
			count++
			if i == 0 {
				cells = append(cells, "first:expression")
			}
		}
		if i == n {
			break
		}
		u := textUnit(r, src == "", src, prevBare, allowBracketFirst)
		pos := "interior"
		switch {
		case src == "":
			pos = "first"
		case count == 1 && !afterExpr:
			pos = "second"
		case afterExpr:
			pos = "after-expression"
		case i == n-1 && !exprAt[n]:
			pos = "last"
		}
		cells = append(cells, pos+":"+u.Class)
		parts = append(parts, hast.Part{Src: u.Src, Out: u.Out})
		src += u.Src
		prevBare = ""
		if !strings.HasPrefix(u.Class, "esc-") {
			prevBare = u.Src
		}
		afterExpr = false
		count++
	}
	if len(parts) == 0 {
		parts = append(parts, hast.Lit("x"))
	}
	return parts, cells
}
