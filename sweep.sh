#!/usr/bin/env bash
# Runs every check's quick (or $TIER) command for several seeds and prints one line per run.
#   ./sweep.sh "1 2 3" [Cxx ...]
# Evidence files are rewritten by each run; restore them from git afterwards if they are not wanted
# (the last seed run wins).
HERE="$(cd "$(dirname "${BASH_SOURCE[0]}")" && pwd)"
seeds="${1:-1 2 3 7 42 2026}"; shift || true
ids=("$@"); [ ${#ids[@]} -eq 0 ] && ids=(C01 C02 C03 C04 C05 C06 C07 C08 C09 C10 C11 C12 C13 C14 C15 C16 C17 C18 C19 C20)
bad=0
for s in $seeds; do
  for id in "${ids[@]}"; do
    start=$(date +%s)
    out="$(VERIF_SEED=$s "$HERE/check" "$id" "${TIER:-quick}" 2>&1)"; code=$?
    echo "seed=$s $id exit=$code $(( $(date +%s) - start ))s $(grep -E '^(VIOLATION|INCONCLUSIVE)' <<<"$out" | head -2 | cut -c1-300)"
    [ $code -ne 0 ] && bad=1
  done
done
exit $bad
