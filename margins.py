#!/usr/bin/env python3
"""Prints, per evidence file, the coverage-floor entries with the smallest margin (observed / required)."""
import json, glob, sys
lim = float(sys.argv[1]) if len(sys.argv) > 1 else 2.0
for f in sorted(glob.glob('/verif/evidence/*.json')):
    e = json.load(open(f)); c = e['coverage']
    th, ft = c.get('thresholds', {}), c.get('features', {})
    tight = sorted(((ft.get(k, 0) / v if v else 9e9, k, ft.get(k, 0), v) for k, v in th.items()))
    tight = [t for t in tight if t[0] < lim]
    if tight:
        print(e['property_id'], 'seed', e['seed'], ' '.join(f"{k}={o}/{r}" for _, k, o, r in tight[:8]))
