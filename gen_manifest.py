#!/usr/bin/env python3
"""Regenerates MANIFEST.json from the table below (kept as a script so that the
20 entries stay consistent)."""
import json, subprocess

M = "runtime monitor: "
T_MODEL = "Trusted: the reference interpreter in harness/model (no ysgo code), the AST->text renderer in harness/hast, Go's strconv/math. "
CHECKS = {
 "C01": (M + "online trace comparison of the real runner against an independent reference interpreter over generated programs x systematically enumerated choice paths",
         "Held on the executions observed: every Next of every explored (program, path) returned exactly the model's element, node, texts, flags, host invocations and store content; evidence lists programs, paths, events and the program shapes reached.",
         T_MODEL + "Sizes bounded (<=6 nodes, <=45 statements, nesting <=10, <=400 steps, <=10/24 paths per program)."),
 "C02": (M + "reference evaluator compared with typed values captured at host functions, store and lines; complete operator x type-pair table + random trees in three parenthesisations",
         "Held on the executions observed; the finite operator table (14 binary operators x 9 type pairs, 2 unary x 3 types) is enumerated completely in every run, everything else is sampled.",
         T_MODEL + "Trees of depth <=6; string literals without quotes/backslashes."),
 "C03": (M + "store-state oracle after every step on a recording variable.Storer and on the default store (typed view through a verif hook), histories with host writes and repeated execution; complete assignment table",
         "Held on the executions observed; the finite assignment table (6 operators x 4 current types x 3 assigned types, + declare) is enumerated completely in every run on both stores.",
         T_MODEL + "The default store's typed maps are read through the verif hook VerifTypedNames."),
 "C04": (M + "ground truth by construction: lines assembled per character with known output, compared with Line.Text / Tags / Disabled at the runner's boundary",
         "Held on the executions observed; a full character-class x position-class matrix is required by the coverage floor. Known finding K1 (text beginning with an escaped bracket) is listed in known_findings.json.",
         T_MODEL + "Display forms of numbers outside the zone where all shortest-round-trip conventions agree are accepted in any notation that parses back with the shortest digits."),
 "C06": (M + "fault injection at the script level: one planted fault per generated program (24 fault classes x 12 position classes), panic/err/value classification at Next, 30 further calls after the error; child-process crash containment",
         "Held on the executions observed: every reached planted fault surfaced as an error and the runner stayed usable; a coverage floor requires every fault class and position class to be reached.",
         T_MODEL + "Process-fatal failures are attributed through an on-disk progress marker and confirmed by re-running the case alone."),
 "C07": (M + "crash-point style enumeration: a snapshot after every step of a donor run, restored into receivers in every runner state, continuation compared with the model started at the checkpoint; deep-copy aliasing probes",
         "Held on the executions observed: every save point x receiver state explored continued as the model prescribes, snapshots stayed unchanged while donors and receivers moved on.",
         T_MODEL + "Receiver states are produced through the public API; VerifState only confirms them for the evidence."),
 "C08": (M + "metamorphic: one program rendered in the canonical and in 4/10 PRNG layouts; reflect.DeepEqual of tree.FromReaders results and trace equality along shared choice paths (also against the model)",
         "Held on the executions observed; a layout-dimension x insertion-point matrix is required by the coverage floor.",
         T_MODEL + "Layout never touches token content (stated per dimension in the evidence assumptions)."),
 "C11": (M + "visit-count oracle: every node prints all counts, Snapshot().VisitedNodes compared after every step with the model's count of completed jump-exits; monotonicity; mid-run restores; failed jumps",
         "Held on the executions observed over generated jump graphs with self-loops, cycles, nested and computed jumps and every tracking marking.",
         T_MODEL),
 "C12": (M + "absorbing-state monitor: after the first end, 10 (now and then 700) further Next calls with hostile arguments; host-function, command and store-write recorders must stay silent; restore revives",
         "Held on the executions observed: ends by node end and by stop at nesting depth 0-14 with statements left, ends right after option groups, stops written with extra words, ends that meet pending commands or a panicking host function; 10 to 700 further calls.",
         T_MODEL + "'No variable change' = no Set*/Clear on the recording store, unchanged GetValues() on the default store."),
 "C17": (M + "handler-log oracle: generated command statements (keyword-prefixed and multi-byte names, hostile words, expression arguments, tab/blank separators) compared with the typing rule of the property",
         "Held on the executions observed; every hostile word and every keyword-prefixed name is required by the coverage floor. Known finding K3 (names beginning with else/endif/endenum) is listed in known_findings.json.",
         T_MODEL + "'Decimal literal' = the grammar's NUMBER, optionally negative."),
 "C05": (M + "differential oracle: NewDialogueRunner's verdict compared with an independent parse (the grammar's lexer and parser under the harness's own counting error listeners; tab/blank-mixed indentation of statement lines is judged by the harness itself) over generated programs, token-level mutations, truncations, raw bytes, reader splits and seed strings; panic capture, child watchdog",
         "Held on the executions observed: err == nil iff the oracle finds the input valid, never a panic; the oracle is cross-checked by by-construction labels.",
         "Trusted: the repository's grammar as the definition of validity, the harness's error listeners. Inputs <= ~2 KiB."),
 "C09": (M + "repeated execution: SHA-256 trace digests of one (script, seed, choice policy) compared across back-to-back runs, runs after unrelated runners, and three fresh processes per chunk; interval and integrality checks on captured draws",
         "Held on the executions observed: 6 executions per case incl. 3 fresh processes with different GOMAXPROCS and execution order; about 10^5 range-checked draws per quick run.",
         "Trusted: the harness's digest (covers elements, attribute lists, error texts, final variables). Error texts are compared between executions of one build only."),
 "C10": (M + "Go race detector (GORACE log files counted by the parent) + gated completion schedules: the harness controls when each command reports completion, so 'pending' is a logical state; handler invocation log; monotonic lower bound for <<wait n>>",
         "Held on the executions observed: 8 handler shapes x completion after 0-5 polls x nil/error, an abandon scenario (RestoreAt while pending, stale completion arriving later), real goroutine timings with 4 runners in parallel (half of them with handlers that share nothing with the harness), zero race reports with a ysgo frame, race-detector plumbing confirmed by a canary.",
         "Trusted: the race detector; the stated 10 s scheduling-stall assumption for the 'Next blocked' verdict; wait is judged by a lower bound only."),
 "C13": (M + "ground truth by construction: the generator records for every marker the rune range it encloses in the final text; compared with ParseMarkup results and TextForAttribute, directly and through dialogues",
         "Held on the executions observed: about 6*10^4 (quick) lines with every feature of the generator required by the coverage floor.",
         "Trusted: the line generator in harness/gen/markup.go and the documented white-space rule; open areas the property text does not settle are avoided by construction and listed in the evidence assumptions."),
 "C14": (M + "purity check: ParseMarkup(line) on a parser value with a PRNG history (incl. failing parses) compared with a fresh value; the same line shown by a dialogue after different prefixes",
         "Held on the executions observed: about 3*10^4 (history, line) pairs and 1500 dialogues per quick run.",
         "Trusted: deep equality incl. SourcePosition; error/no-error only for failing lines."),
 "C15": (M + "totality and range monitor: hostile strings (marker fragments, invalid UTF-8, truncations) parsed on one parser value; panic capture, range predicates, TextForAttribute on every attribute, re-check of earlier results after later parses; child watchdog for non-termination",
         "Held on the executions observed: about 3*10^5 strings per quick run.",
         "Trusted: rune counting as Go does it. A call that does not return is attributed through the on-disk progress marker and confirmed alone."),
 "C16": (M + "reflection-built probes: function types from reflect.FuncOf registered through the converting calls and invoked from scripts; reflect.MakeFunc probes record received arguments; conditional oracle (accepted => works) + unconditional must-refuse set; child-process crash containment for panics in the bridge goroutine",
         "Held on the executions observed; all one-parameter signatures are enumerated completely in both tiers, all two-parameter, one-parameter-plus-variadic and three-parameter signatures in the thorough tier (360778 signatures), the rest PRNG-sampled; 10/24 script-side calls per accepted signature.",
         "Trusted: reflect; the conversion oracle stated in the evidence rule (range-checked integers, float32 only on representable values)."),
 "C18": (M + "Go race detector over concurrent creation and stepping of independent runners in fresh child processes (cold ANTLR caches), with sequential reference traces from another fresh process; no harness-side synchronisation during the concurrent phase",
         "Held on the executions observed: 16 (quick) / 400 (thorough) children with 2-64 goroutines each; zero race reports with a ysgo/antlr frame (plumbing confirmed by a canary); every concurrent trace equals its sequential reference.",
         "Trusted: the race detector (only observes interleavings that happened); per-goroutine time stamps for the interleaving evidence."),
 "C20": (M + "slice-model oracle: bounded-exhaustive enumeration of enqueue/dequeue sequences + hovering PRNG sequences across growths with a wrapped head (verif hook for coverage), stack model, and an INDENT/DEDENT balance monitor over token streams of valid, mutated and raw inputs",
         "Held on the executions observed; the enqueue/dequeue sequences of length 18 (quick) / 24 (thorough) are enumerated completely.",
         "Trusted: the slice models (a few lines). VerifRingState / VerifPending are used for coverage evidence only."),
 "C19": (M + "contract predicates evaluated exactly on float64 (round_places with math/big rationals) over results captured at a raw host function; values supplied through the store",
         "Held on the executions observed: about 10^5 (quick) to 5*10^6 (thorough) doubles from 11 hostile classes x 14 results each.",
         "Trusted: Go's math and math/big. The round_places bound carries a 2 ulp(x) representation allowance."),
}
PENDING = {}
ALL = ["C%02d" % i for i in range(1, 21)]

def main():
    hooks_commits = subprocess.run(["git", "-C", "/repo", "log", "--format=%H", "--grep=^verif:"], capture_output=True, text=True).stdout.split()
    m = {
        "version": 1,
        "setup_cmd": "./check setup",
        "hooks": {
            "guard": "verif",
            "enable": "go build -tags verif (the harness module replaces github.com/remieven/ysgo with /repo, so every check compiles /repo's working tree with the tag on)",
            "baseline_off_cmd": "cd /repo && GOFLAGS=-mod=mod GOPROXY=off GOSUMDB=off go test -vet=off -count=1 ./...",
            "source_commits": hooks_commits,
            "add_only": True,
        },
        "engines": [{"name": "vcheck", "path": "harness/cmd/vcheck", "serves_properties": sorted(CHECKS), "kind_free_text": "Go harness: PRNG-determined workloads in child processes, recorders at ysgo's public boundary, online oracles, race detector for C10/C18"}],
        "checks": [],
        "not_applicable": [],
        "notes": "All checks are runtime monitors: they decide the property on the executions they produce. Exit 0 held / 1 violation / 2 inconclusive (coverage floor not reached, watchdog).",
    }
    for pid in ALL:
        if pid in CHECKS:
            tech, text, note = CHECKS[pid]
            m["checks"].append({
                "property_id": pid,
                "quick_cmd": "./check %s quick" % pid,
                "thorough_cmd": "./check %s thorough" % pid,
                "evidence_file": "evidence/%s.json" % pid,
                "replay_cmd_template": "./check replay {path}",
                "engine": "vcheck",
                "level_claimed": {"category": "exploration", "text": text, "design_ref": "DESIGN.md section 5, " + pid},
                "level_note": note + " Verdicts come from ysgo's public boundary; case lists are determined by VERIF_SEED; exit 2 (inconclusive) when the coverage floor is not reached.",
                "technique": tech,
            })
        else:
            m["not_applicable"].append({"property_id": pid, "reason": PENDING.get(pid, "monitor designed (DESIGN.md section 5) but not built yet; not claimed")})
    json.dump(m, open("/verif/MANIFEST.json", "w"), indent=1)
    print("checks:", len(m["checks"]), "not_applicable:", len(m["not_applicable"]))

main()
