#!/usr/bin/env python3
"""Regenerates MANIFEST.json from the table below (kept as a script so that the
20 entries stay consistent)."""
import json, subprocess

CHECKS = {
 "C01": ("online trace comparison of the real runner against an independent reference interpreter over generated programs x enumerated choice paths (runtime monitor)",
         "Held on the executions observed: every Next of every explored (program, path) returned exactly the model's element; evidence lists programs, paths, events and the shapes reached.",
         "Trusted: the reference interpreter in harness/model (no ysgo code), the AST->text renderer, Go's strconv. Sizes bounded (<=6 nodes, nesting <=10)."),
}
PENDING = {}
ALL = ["C%02d" % i for i in range(1, 21)]

def main():
    hooks_commits = subprocess.run(["git", "-C", "/repo", "log", "--format=%H", "--grep=^verif:"], capture_output=True, text=True).stdout.split()
    m = {
        "version": 1,
        "setup_cmd": "./check setup",
        "hooks": {
            "guard": "verif",
            "enable": "go build -tags verif (the harness module replaces github.com/remieven/ysgo with /repo, so every check compiles /repo's working tree with the tag on)",
            "baseline_off_cmd": "cd /repo && GOFLAGS=-mod=mod GOPROXY=off GOSUMDB=off go test -vet=off -count=1 ./...",
            "source_commits": hooks_commits,
            "add_only": True,
        },
        "engines": [{"name": "vcheck", "path": "harness/cmd/vcheck", "serves_properties": sorted(CHECKS), "kind_free_text": "Go harness: PRNG-determined workloads in child processes, recorders at ysgo's public boundary, online oracles, race detector for C10/C18"}],
        "checks": [],
        "not_applicable": [],
        "notes": "All checks are runtime monitors: they decide the property on the executions they produce. Exit 0 held / 1 violation / 2 inconclusive (coverage floor not reached, watchdog).",
    }
    for pid in ALL:
        if pid in CHECKS:
            tech, text, note = CHECKS[pid]
            m["checks"].append({
                "property_id": pid,
                "quick_cmd": "./check %s quick" % pid,
                "thorough_cmd": "./check %s thorough" % pid,
                "evidence_file": "evidence/%s.json" % pid,
                "replay_cmd_template": "./check replay {path}",
                "engine": "vcheck",
                "level_claimed": {"category": "exploration", "text": text, "design_ref": "DESIGN.md section 5, " + pid},
                "level_note": note,
                "technique": tech,
            })
        else:
            m["not_applicable"].append({"property_id": pid, "reason": PENDING.get(pid, "monitor designed (DESIGN.md section 5) but not built yet; not claimed")})
    json.dump(m, open("/verif/MANIFEST.json", "w"), indent=1)
    print("checks:", len(m["checks"]), "not_applicable:", len(m["not_applicable"]))

main()
